"""Property -> units / function scopes / Kani leaves.  The property texts live in properties.jsonl (fixed)."""

SHA = 'sha256 / ripemd160 / sha1 / sha512 are uninterpreted functions (the sha2, ripemd160, sha-1 crates are assumed to compute them)'
TB = 'Trusted: Verus/Z3, Kani/CBMC, rustc; the extraction rules of DESIGN 2.2 (comments/attributes dropped, lexical rewrites R1-R12 recorded per function in the evidence); shim contracts on std/byteorder/Cursor listed under trusted_base; derive(Clone) is structural.'

PROPS = {
    'C01': {
        'units': {
            'tx_wire': ['*'],
            'tx_cache': ['Transaction::new', 'Transaction::new_impl', 'Transaction::add_input', 'Transaction::add_output', 'Default for Transaction::default'],
            'script_ser': ['*'],
        },
        'kani': [
            {'harness': 'write_varint_vec_all_u64', 'validates': 'shim contract VarIntWriter for Vec<u8>::write_varint == varint(n), all u64'},
            {'harness': 'read_varint_cursor_all_prefixes', 'validates': 'shim contract VarIntReader for Cursor<Vec<u8>>::read_varint == parse_varint, all buffers of 0..=9 bytes'},
            {'harness': 'get_varint_bytes_all_u64', 'validates': 'VarInt::get_varint_bytes == varint(n), all u64'},
        ],
        'assumptions': [SHA, 'compact-size reader/writer bodies use &mut-capturing closures: their contracts are assumed by Verus and proved by Kani on the real functions (complete: loop-free over all u64 / all <=9-byte buffers)'],
        'design_ref': 'DESIGN.md section 4 C01',
        'level_text': 'Functional contracts proved by Verus on the real serialisers (bytes == ser_tx(contents), any counts / script lengths) and parsers (result fields == what the positional decoder dec_tx reads from the bytes; id == reversed sha256d of the serialisation; coinbase predicate; accessors), compact-size codec proved by Kani over the full u64 domain. Unbounded in counts and lengths, so both sides of 252/253 and 65535/65536 are inside the quantifier.',
        'level_note': TB,
    },
    'C02': {
        'units': {
            'script_ser': ['*'],
            'script_parse': ['*'],
        },
        'assumptions': ['num-derive FromPrimitive table generated from the OpCodes enum in the current source'],
        'design_ref': 'DESIGN.md section 4 C02',
        'level_text': 'Verus proves on the real tokenizer / re-nesting / serialiser bodies: accepted => flatten(parsed) == strict independent tokenizer tok(bytes) (pushes little-endian, truncated push => rejected, unknown opcode => rejected), no conditional opcode left outside a closed block, serialise(parsed) == input bytes (lemmas L1, L2), push-prefix helper minimal for every length 1..2^32-1 and parses back to one push. All lengths, all nesting depths.',
        'level_note': TB,
    },
    'C03': {
        'units': {
            'sighash_forkid': ['*'],
            'sighash_legacy': ['Transaction::sighash_preimage_impl'],
            'tx_wire': ['TxOut::to_bytes_impl'],
            'script_ser': ['Script::to_bytes', 'Script::script_bits_to_bytes'],
        },
        'kani': [
            {'harness': 'write_varint_vec_all_u64', 'validates': 'shim contract VarIntWriter for Vec<u8>::write_varint == varint(n), all u64'},
        ],
        'assumptions': [SHA],
        'design_ref': 'DESIGN.md section 4 C03',
        'level_text': 'Verus proves on the real sighash_bip143 / hash_inputs / hash_sequence / hash_outputs bodies that the returned preimage is byte-for-byte preimage_forkid(contents, index, flag, subscript, value) as written from the replay-protected sighash specification (field order, little-endian widths, the three midstate hashes zeroed exactly under the specified flag conditions), for every transaction, index, value and the six FORKID flags, and that Err is returned exactly for an out-of-range input index or SINGLE without a matching output.',
        'level_note': TB + ' sha256d is uninterpreted; the signing sentence of the property (signature verifies) is decided under C05.',
    },
    'C09': {
        'units': {
            'tx_wire@alloc': ['Transaction::from_bytes_impl', 'Transaction::from_hex_impl', 'TxIn::read_in', 'TxIn::from_hex_impl', 'TxIn::from_outpoint_bytes_impl', 'TxOut::read_in', 'TxOut::from_hex_impl'],
            'script_parse@alloc': ['Script::from_bytes', 'Script::from_hex', 'Script::read_pass', 'Script::read_fail', 'Script::read_if_statement', 'Script::if_statement_pass', 'Script::from_coinbase_bytes'],
            'keys_glue': ['PrivateKey::from_wif_impl', 'PrivateKey::from_hex_impl', 'PrivateKey::from_bytes_impl', 'PublicKey::from_bytes_impl', 'PublicKey::from_bytes', 'PublicKey::from_hex_impl',
                          'PublicKey::to_decompressed_impl', 'PublicKey::to_compressed_impl', 'P2PKHAddress::from_string_impl', 'P2PKHAddress::from_pubkey_hash_impl'],
            'bip32_glue': ['ExtendedPrivateKey::from_string_impl', 'ExtendedPublicKey::from_string_impl', 'ExtendedPrivateKey::parse_str_to_idx', 'ExtendedPublicKey::parse_str_to_idx'],
            'signature_glue': ['Signature::from_der_impl', 'Signature::from_hex_der_impl', 'Signature::from_compact_impl', 'Signature::get_public_key_from_digest', 'SighashSignature::from_bytes_impl', 'TryFrom<u8> for SigHash::try_from'],
            'ecies_glue': ['ECIESCiphertext::from_bytes_impl'],
            'aes_glue': ['*'],
            'ecdsa_glue': ['ECDSA::verify_hashbuf', 'ECDSA::verify_hashbuf_impl', 'ECDSA::sign_digest_with_deterministic_k', 'ECDSA::verify_digest_impl'],
        },
        'only_kinds': ['precondition', 'overflow', 'div0', 'shift', 'index', 'unreachable', 'decreases', 'type_invariant'],
        'only_labels': r'(is_an_error|not_a_panic|^alloc\.|short_input|total_on)',
        'kani': [
            {'harness': 'read_varint_cursor_all_prefixes', 'validates': 'compact-size reader returns Ok/Err (never panics) on every buffer of 0..=9 bytes'},
        ],
        'assumptions': ['the documented panic conditions of std / byteorder / generic-array / crypto-bigint calls are their shim preconditions (slice ranges, Vec indexing, GenericArray::from_slice exact length, U256::from_*_slice exact length, unwrap on None/Err, integer overflow in debug builds)',
                        'hex::decode, bs58 decode, k256 / ecdsa / serde parsers are assumed panic-free and to allocate proportionally to their input',
                        'NOT covered: Script::from_asm_string and ScriptTemplate text parsing (str iterator adapters), the JSON and CBOR entry points (serde_json / ciborium / derive expansions), the four serde hex helpers, native stack depth (deeply nested conditionals recurse in the re-nesting functions and in script_bits_to_bytes) and allocator failure'],
        'design_ref': 'DESIGN.md section 4 C09',
        'level_text': 'Verus proves, on the real bodies of the byte / hex / Base58 decoders listed in the evidence, every exec-mode safety obligation with no precondition on the input other than "budget >= input length": no arithmetic overflow or underflow, every index and slice range in bounds, unwrap/expect only on provably Some/Ok, the panic preconditions of every dependency call, termination of every loop and recursion; and, in the allocation-budget variant of the transaction and script decoders, that every length-driven allocation is at most 2 * input length + 128 bytes (an allocation sized by a declared length fails unless the code first compares it with what remains).',
        'level_note': TB,
    },
    'C10': {
        'units': {
            'sighash_legacy': ['*'],
            'tx_wire': ['Transaction::to_bytes_impl', 'TxIn::to_bytes_impl', 'TxOut::to_bytes_impl', 'Transaction::get_input', 'Transaction::get_output', 'TxOut::new'],
            'tx_cache': ['Transaction::set_input', 'Transaction::set_output', 'Transaction::add_input'],
            'script_ser': ['Script::to_bytes', 'Script::script_bits_to_bytes'],
        },
        'kani': [
            {'harness': 'write_varint_vec_all_u64', 'validates': 'shim contract VarIntWriter for Vec<u8>::write_varint == varint(n), all u64'},
        ],
        'assumptions': ['derive(PartialOrd) on the fieldless enum SigHash orders by discriminant value (used for the ANYONECANPAY test `sighash >= ANYONECANPAY`)',
                        'derive(Default) on Script yields the empty script'],
        'design_ref': 'DESIGN.md section 4 C10',
        'level_text': 'Verus proves on the real sighash_legacy body (four loops, rules R6/R13) that for the six legacy flags the returned bytes equal preimage_legacy(contents, index, flag, subscript-without-any-code-separator) written from the original SignatureHash: other scripts blanked, NONE/SINGLE output and sequence rewriting, ANYONECANPAY isolation, 4-byte LE type; Err exactly for an out-of-range index or SINGLE without a matching output; the receiver is untouched. Script::strip_codeseparators is proved to remove separators at every nesting depth.',
        'level_note': TB,
    },
    'C13': {
        'units': {
            'hash_glue': ['*'],
        },
        'assumptions': [SHA, 'the sha2 / sha-1 / ripemd160 / hmac / pbkdf2 crates compute the published algorithms (spec_sha256, spec_hmac::<H>, spec_pbkdf2::<PRF> are uninterpreted): equality with reference implementations is NOT decided by this technique',
                        'digest::Digest blanket impl == Default + update + finalize_fixed of the implementing type',
                        'Hmac<T>::new_from_slice accepts every key length'],
        'design_ref': 'DESIGN.md section 4 C13',
        'level_text': 'Composition only: Verus proves on the real wrapper bodies that each one-shot function returns the named composition (sha_256d = sha256 o sha256, hash_160 = ripemd160 o sha256), that Hash::hmac keys the MAC with its SECOND argument and feeds the first as message for all six instantiations, that the streaming adapters absorb by concatenation (so any chunking gives the same digest), finalise to the composition of what was absorbed, reverse exactly when the flag is set, and reset to empty, and that PBKDF2 dispatches to the PRF named by the enum, returns output_length bytes and stores the salt. The primitives themselves are uninterpreted.',
        'level_note': TB + ' Cryptographic primitives are assumed, not verified.',
    },
    'C14': {
        'units': {
            'interp': ['*'],
            'hash_glue': ['Hash::sha_256', 'Hash::sha_256d', 'Hash::sha_1', 'Hash::ripemd_160', 'Hash::hash_160'],
        },
        'rlimit': 40,
        'kani': [
            {'harness': 'push_number_all_i64', 'validates': 'assumed contract of ScriptStack::push_number (minimal script number of every in-range i64)'},
            {'harness': 'pop_number_all_short_elements', 'validates': 'assumed contract of ScriptStack::pop_number (sign-magnitude decoding of every element of 0..=5 bytes)'},
            {'harness': 'push_bool_both', 'quick': False, 'validates': 'push_bool: true -> 01, false -> empty (also proved by Verus)'},
            {'harness': 'pop_bool_elements_up_to_6_bytes', 'bound': 'elements of at most 6 bytes', 'validates': 'bounded cross-check of pop_bool truthiness (the unbounded proof is the Verus obligation on pop_bool)'},
        ],
        'assumptions': ['num-bigint computes mathematical integer arithmetic; to_bytes_le / from_bytes_le are characterised by le_val / mag_le with the axioms axiom_mag_le, axiom_mag_le_unique; division truncates toward zero, the remainder takes the sign of the dividend', SHA,
                        'implementation limit encoded in the specification: operands read with the 4-byte number reader (PICK / ROLL index, SPLIT position, NOT, 0NOTEQUAL) fail when longer than 4 bytes',
                        'NOT covered: element-size and script-size consensus limits, OP_2MUL / OP_2DIV (treated as implementation-defined), OP_CODESEPARATOR bookkeeping (C15), signature opcodes (C15)'],
        'design_ref': 'DESIGN.md section 4 C14/C16',
        'level_text': 'Verus proves, separately for each of 85 opcodes (one copy of the REAL match_opcode body per opcode, verified under the precondition "the opcode is X"), that the resulting main and alt stacks are exactly bsv_step(X, stacks) as written from the Bitcoin SV script specification, and that the call fails exactly when bsv_step is None (missing operands, out-of-range index / position, unequal operand lengths, division by zero): constants, flow NOPs, VERIFY, all stack / alt-stack / splice / bitwise / comparison / arithmetic / hashing opcodes; script numbers of any size are decoded sign-magnitude little-endian and results re-encoded minimally (push_bigint, to_bigint proved against scriptnum / enc_scriptnum); truthiness is proved for every byte string; pushes put their payload on the stack; IF / NOTIF pop the condition and splice in exactly the selected branch. OP_RETURN, OP_LSHIFT, OP_RSHIFT are known findings.',
        'level_note': TB,
    },
    'C15': {
        'units': {
            'interp_sig': ['*'],
            'interp': ['Interpreter::match_opcode#OP_CODESEPARATOR*', 'Interpreter::match_opcode#OP_CHECKSIG*', 'Interpreter::match_opcode#OP_CHECKMULTISIG*'],
            'ecdsa_glue': ['ECDSA::verify_hashbuf_impl'],
            'signature_glue': ['SighashSignature::from_bytes_impl'],
            'sighash_legacy': ['Transaction::sighash_preimage_impl', 'Transaction::sighash_legacy'],
            'sighash_forkid': ['Transaction::sighash_bip143'],
        },
        'rlimit': 40,
        'assumptions': ['ECDSA verification, SEC1 point decoding, DER decoding and SHA-256 are uninterpreted functions (k256 / sha2 assumed): "valid ECDSA signature by the key over the digest" is ecdsa_verify(sec1_point(key), reduce_be(sha256d(preimage)), der_dec(sig)) by definition', SHA,
                        'in unit interp the verdicts of checksig / multisig are uninterpreted functions of (stack, code separator offset, transaction) and their stack-protocol / frame clauses are assumed there; those clauses are proved on the real bodies in unit interp_sig',
                        'quantifier restriction: the preimage clause is stated for the twelve standard flag bytes; bare FORKID (0x40) and ANYONECANPAY (0x80), which SigHash::try_from also accepts, are outside the property and undecided',
                        'NOT decided here: (a) the code-separator position is recorded as an index into the spliced run-time element list and compared with the number of top-level elements of the unlocking script, so the proved subscript is "locking-script elements from index max(0, offset - |unlocking elements|)"; that this equals "after the most recently executed code separator" holds only while no conditional has been spliced in before it - scripts with IF/NOTIF before a code separator are not covered (recorded as limit, see DESIGN.md C15); (b) that spends assembled and signed through the library API are accepted (needs sign/verify consistency of k256, an assumption about the dependency, plus the ASM builder C17); (c) sensitivity to single-field mutation, which is a collision-resistance property of SHA-256, not a contract'],
        'design_ref': 'DESIGN.md section 4 C15',
        'level_text': 'Verus proves on the real bodies of checksig, multisig, verify_tx_signature, calculate_sighash_preimage, Transaction::_verify and TxIn::get_finalised_script_impl: CHECKSIG pops key then signature, takes the last signature byte as the flag, computes exactly the specified preimage (fork-id or legacy algorithm selected by the flag, C03/C10 specs) of the spending transaction at the executing input with the locking-script subscript starting at the recorded code-separator offset and the declared value of the spent output, strictly decodes DER + flag and the SEC1 key, and returns exactly ecdsa_verify(key, reduce(sha256d(preimage)), sig) - no other digest is tried; CHECKMULTISIG follows the n-keys / m-signatures / extra-element stack protocol and returns true exactly when the in-order greedy matching of every signature against the remaining keys (each key tried once) succeeds for all m signatures, each under its own flag-selected preimage; the four opcodes push the verdict / fail unless it is true; OP_CODESEPARATOR records the position after itself; the executed script is parse(unlocking bytes ++ locking bytes). No panic for any stack or transaction (counts beyond the stack, offsets beyond the script are errors).',
        'level_note': TB + ' Cryptographic primitives are assumed, not verified.',
    },
    'C16': {
        'units': {
            'interp': ['*'],
        },
        'only_kinds': ['precondition', 'overflow', 'div0', 'shift', 'index', 'unreachable', 'decreases', 'type_invariant', 'invariant'],
        'only_labels': r'(is_an_error|error_leaves|remaining_nodes|progress|none_only_at_the_end|ok_means_every_node|out_of_range)',
        'kani': [
            {'harness': 'push_number_all_i64', 'validates': 'assumed contract of ScriptStack::push_number: Err exactly outside [-(2^31-1), 2^31-1], else the minimal script number; all i64'},
            {'harness': 'pop_number_all_short_elements', 'validates': 'assumed contract of ScriptStack::pop_number: every top element of 0..=5 bytes (longer elements take the same `len > 4` error path)'},
        ],
        'assumptions': ['num-bigint: division / remainder panic on a zero divisor, shifts panic on a negative count (shim preconditions); BigInt arithmetic is mathematical',
                        'Vec::remove / insert / swap / split_at / index panic conditions per std (shim / vstd preconditions)',
                        'NOT covered: native stack depth (the recursive re-nesting and serialisation of deeply nested conditionals), allocator failure; CHECKSIG / CHECKMULTISIG bodies are verified in unit interp_sig (C15) and appear here only through their call',
                        'stepping == running: run_impl is literally the iteration of next_impl (its loop body contains nothing else that touches the state); this is structural, not a stated obligation'],
        'design_ref': 'DESIGN.md section 4 C14/C16',
        'level_text': 'Verus proves on the real interpreter bodies (match_opcode with all of its ~100 arms, match_script_bit, next_impl, run_impl, the eight script-stack primitives, to_bigint) with no precondition on script or stack contents: no arithmetic underflow / overflow, no out-of-range index / remove / insert / swap / split, no unwrap of None, no division by zero or negative shift, no unreachable/todo; each successful step strictly decreases the number of script nodes not yet executed (IF splicing included), so stepping and running terminate; after an Err the main and alt stacks and the script are unchanged; None is returned only at the end of the script.',
        'level_note': TB,
    },
    'C19': {
        'units': {
            'template': ['*'],
            'signature_glue': ['Signature::from_der_impl'],
            'keys_glue': ['PublicKey::from_bytes_impl'],
        },
        'assumptions': ['"decodes as a signature / public key" is what Signature::from_der_impl / PublicKey::from_bytes_impl accept (their contracts are proved in signature_glue / keys_glue over the uninterpreted DER and SEC1 decoders of k256)',
                        'the script an input is matched on is the result of TxIn::get_finalised_script_impl (uninterpreted here; its contract is proved in unit interp_sig, C15)',
                        'derive(PartialEq) on OpCodes is structural; Option<u64> comparison operators follow vstd (None < Some(_))',
                        'inputs that record no value: the property is silent; the proved selection predicate treats the value as unknown (fails any exact / minimum bound, is not subjected to a maximum bound)',
                        'template text grammar: str::len, FromStr for u8 / usize, the strum name table of OpCodes, str::starts_with, str::split_once and hex decoding are UNINTERPRETED functions of the text (Verus cannot reason about string contents); the proved statement is about how one word is classified given their results, not about concrete texts',
                        'NOT covered: splitting the template text into words (from_asm_string_impl: str::split + iterator collect into Result), hence "a script matches the template derived from itself" (goes through the ASM rendering, C17)'],
        'design_ref': 'DESIGN.md section 4 C19',
        'level_text': 'Verus proves on the real bodies of Script::match_impl / test_impl / is_match: the result is Ok exactly when template and script have the same number of elements and every element satisfies its token, with the token relation written from the property statement (exact opcode / push / pushdata equality, the five length comparisons of a data token against the payload length, any-data, signature = strict DER optionally followed by a flag byte, public key = valid SEC1 point, public-key hash = 20 bytes; the last three only on direct pushes), and the extracted list is exactly the matched pushes in script order tagged with their token kind; and on Transaction::is_matching_output / is_matching_input / match_output(s) / match_input(s): an output is selected exactly when its script matches the template (if any) and its value satisfies the exact, minimum and maximum bounds (inclusive), the plural forms return exactly the selected indices in increasing order and the singular forms the first one (None only when nothing is selected); an input whose script cannot be assembled is not selected (no panic). ScriptTemplate::map_string_to_match_token (one word of template text): numeric aliases 0..16 (only for texts shorter than 3 bytes) give OP_0 / OP_1..OP_16, opcode names give the exact opcode except OP_SIG / OP_PUBKEY / OP_PUBKEYHASH / OP_DATA which give the fuzzy tokens, a word starting with the name of OP_DATA that contains a comparison operator gives a length token with the operator recognised in the order >=, <=, =, >, < and mapped to the same-named comparison and the number parsed from the text after it (unparsable number = error), anything else must be hex and gives an exact push token whose push opcode is determined by the payload length.',
        'level_note': TB,
    },
    'C20': {
        'units': {
            'aes_glue': ['*'],
        },
        'assumptions': ['the aes / block-modes / ctr crates compute standard AES-CBC with PKCS#7 and AES-CTR with the IV as initial big-endian counter (spec_cbc_enc, spec_cbc_dec, spec_ctr are uninterpreted): equality with an independent AES is NOT decided by this technique',
                        'axioms: cbc_dec(k, iv, cbc_enc(k, iv, m)) == Some(m); |cbc_enc(m)| == (|m| / 16 + 1) * 16; ctr is an involution of equal length',
                        'GenericArray::from_slice (reached through .into()) panics unless the slice has exactly the array length'],
        'design_ref': 'DESIGN.md section 4 C20',
        'level_text': 'Composition only: Verus proves on the real encrypt_impl / decrypt_impl / aes_ctr bodies that each of the four modes dispatches to the named cipher with the caller key and IV (CTR from offset 0), that a key or IV of the wrong size yields Err and never a panic, that CBC decryption propagates length/padding rejection; decrypt o encrypt = id and the length laws follow from the stated cipher axioms.',
        'level_note': TB + ' The AES primitives are assumed, not verified.',
    },
    'C06': {
        'units': {
            'signature_glue': ['*'],
        },
        'assumptions': ['k256 / ecdsa crates: DER encode/decode (strict, der_dec(der_enc(s)) == s, no trailing bytes accepted), from_scalars validity, public-key recovery are uninterpreted functions with the named axioms; that recovery returns the SIGNER key is the axiom axiom_sign_recovers, and that it fails or differs for another message is NOT decided',
                        'num-derive table for SigHash generated from the enum in the current source'],
        'design_ref': 'DESIGN.md section 4 C06',
        'level_text': 'Verus proves on the real bodies: from_der parses plain DER as given (whatever its last byte) and DER+flag by stripping exactly one valid flag byte, and accepts nothing else; compact form = [27 + recid + 4*compressed] ++ r ++ s; from_compact accepts exactly 65 bytes with header 27..=34 and in-range scalars, decodes the recovery id and compression marker (round trip of all 8 header combinations by lemma), and never panics; SighashSignature = strict DER ++ flag byte both ways; recovery uses the recorded id, the same digest selection as signing and the recorded compression form, and a digest that is not 32 bytes is an error.',
        'level_note': TB + ' Elliptic-curve mathematics and DER parsing inside k256 are assumed.',
    },
    'C07': {
        'units': {
            'keys_glue': ['*'],
        },
        'assumptions': ['k256 / elliptic-curve: SEC1 framing and point validation, compression / decompression, scalar validity and d*G are uninterpreted functions with the named axioms (axiom_sec1_forms, axiom_sec1_valid_framing, axiom_pub_valid); equality with an independent secp256k1 is NOT decided',
                        'bs58 and hex encode/decode are uninterpreted with decode(encode(b)) == Some(b)', SHA,
                        'NOT covered: PrivateKey::to_wif_impl, P2PKHAddress::to_locking_script_impl and the script text of to_unlocking_script_impl assemble their result with format!() on hex strings, whose content this technique cannot see (macro M2)'],
        'design_ref': 'DESIGN.md section 4 C07',
        'level_text': 'Verus proves on the real bodies: PublicKey::from_bytes accepts exactly SEC1 encodings of non-identity curve points and keeps the bytes; compress / decompress return the same point in the other form and never panic; the public key and point of a private key use its compression flag; address = prefix ++ hash160(encoded key) ++ first 4 bytes of sha256d(prefix ++ hash); to_string is Base58 of exactly those 25 bytes (checksum recomputed); from_string accepts exactly 25 decoded bytes with a matching checksum whatever the text length and returns those fields; set_chain_params re-prefixes and re-checksums; the unlocking script is refused unless hash160(key) equals the address hash, whatever the prefix; from_wif enforces the 4-byte checksum, decodes prefix / key / compression suffix by position, accepts only a valid scalar and never indexes out of range.',
        'level_note': TB + ' Curve arithmetic, Base58 and hex codecs are assumed.',
    },
    'C05': {
        'units': {
            'ecdsa_glue': ['*'],
            'hash_glue': ['get_hash_digest', 'FixedOutput for Sha256r::*', 'Update for Sha256r::*', 'ReversibleDigest for Sha256r::*'],
        },
        'assumptions': ['k256 / ecdsa crates: try_sign_prehashed (incl. low-S normalisation), rfc6979_generate_k, verify_prehashed / verify_digest, scalar reduction and ECDH are uninterpreted functions; that rfc6979_generate_k equals RFC 6979 bit for bit, that no produced s exceeds n/2, and that verification FAILS for other messages / keys are inside the dependencies and NOT decided by this technique',
                        'axioms: verify(pub(d), z, sign(d, k, z)); ECDH commutes', SHA],
        'design_ref': 'DESIGN.md section 4 C05',
        'level_text': 'Composition only: Verus proves on the real signer / verifier bodies that every signing entry point (deterministic nonce in both nonce byte orders, caller nonce, random nonce, pre-hashed digest) returns ecdsa_sign(d, k, z) with z = big-endian reduction of the selected digest (SHA-256 or double SHA-256 of the message) - the same z both verifiers use - that the deterministic nonce is rfc6979_k over the stated hash with the stated byte order, that the recovery info carries the key compression flag, that verification accepts exactly when ecdsa_verify holds and never returns Ok(false); with the ECDSA axiom every produced signature verifies under the signer key. ECDH returns the x coordinate of d*Q and is symmetric by the commutativity axiom.',
        'level_note': TB + ' The elliptic-curve primitives are assumed, not verified.',
    },
    'C11': {
        'units': {
            'ecies_glue': ['*'],
            'aes_glue': ['AES::encrypt_impl', 'AES::decrypt_impl'],
            'hash_glue': ['Hash::sha_512', 'Hash::sha_256_hmac', 'Hash::hmac'],
        },
        'assumptions': ['ECDH point multiplication, SEC1 encoding, SHA-512, HMAC-SHA256 and AES-128-CBC are uninterpreted functions (k256, sha2, hmac, aes, block-modes assumed); byte-identity with an independent BIE1 implementation is decided only up to these primitives',
                        'axioms: ECDH commutes; cbc_dec(cbc_enc(m)) == Some(m); unforgeability of HMAC is NOT a theorem here: "tampering is rejected" is decided in the form "nothing is returned unless the stored MAC equals the HMAC over magic ++ embedded key ++ body"'],
        'design_ref': 'DESIGN.md section 4 C11',
        'level_text': 'Verus proves on the real bodies: keys = SHA-512(compressed(d*Q)) split [0..16] iv / [16..32] AES key / [32..64] MAC key; encrypt returns AES-128-CBC(ke, iv, m), the embedded compressed sender key (unless excluded) and HMAC-SHA256(km, "BIE1" ++ key? ++ ciphertext); decrypt returns plaintext only if the stored MAC equals that HMAC and then the CBC decryption; to_bytes = "BIE1" ++ key? ++ ct ++ mac and from_bytes decodes by position, validates the embedded key, and returns Err (never panics) on short input; decrypt o encrypt = id and parse o serialise = id are lemmas over the contracts and the cipher / ECDH axioms.',
        'level_note': TB + ' Cryptographic primitives are assumed, not verified.',
    },
    'C12': {
        'units': {
            'bsm_glue': ['*'],
            'signature_glue': ['Signature::get_public_key', 'Signature::to_compact_bytes', 'Signature::from_compact_impl'],
            'keys_glue': ['P2PKHAddress::from_pubkey_impl', 'P2PKHAddress::to_pubkey_hash'],
            'ecdsa_glue': ['ECDSA::sign_with_deterministic_k_impl', 'ECDSA::sign_with_k_impl', 'ECDSA::verify_digest_impl'],
        },
        'kani': [
            {'harness': 'write_varint_vec_all_u64', 'validates': 'shim contract VarIntWriter for Vec<u8>::write_varint == varint(n), all u64'},
        ],
        'assumptions': ['ECDSA sign / verify / recover, SEC1, hash160 are uninterpreted (k256 etc. assumed); "verification fails for any other message or key" rests on those primitives and is NOT decided here beyond: Ok is returned only if the recovered key hashes to the address hash and the signature verifies'],
        'design_ref': 'DESIGN.md section 4 C12',
        'level_text': 'Verus proves on the real bodies: the signed bytes are compact-size(24) ++ "Bitcoin Signed Message:\\n" ++ compact-size(len) ++ message for every length (compact-size writer proved by Kani over all u64), the signed digest is its double SHA-256, signing carries the key compression marker; verify returns Ok(true) only if the key recovered with the recorded id hashes (hash160 of its recorded compression form) to the address hash and the signature verifies, and returns Ok whenever that holds - independent of the address prefix.',
        'level_note': TB,
    },
    'C08': {
        'units': {
            'bip32_glue': ['*'],
            'hash_glue': ['Hash::sha_512_hmac', 'Hash::hmac', 'Hash::hash_160'],
        },
        'assumptions': ['HMAC-SHA512, hash160, scalar addition mod n, point addition, d*G, SEC1 and Base58 are uninterpreted functions (hmac, sha2, k256, bs58 assumed); equality with an independent BIP32 implementation is decided only up to these primitives',
                        'axiom_bip32_distributes: (k + IL)*G == k*G + IL*G; axiom_generator_mul',
                        'NOT covered: derive_from_path_impl (iterator adapters over str::split with function values) and the xpub to_string_impl (Cursor used as a read/write buffer); the path grammar is covered only per segment through parse_str_to_idx with str methods uninterpreted'],
        'design_ref': 'DESIGN.md section 4 C08',
        'level_text': 'Verus proves on the real bodies: master key = split of HMAC-SHA512(key "Bitcoin seed", seed); private child: data 00 ++ k ++ be32(i) (hardened) or serP(K) ++ be32(i) (normal), HMAC keyed by the chain code, key IL + k mod n, chain IR, depth + 1 with overflow refused, fingerprint = first 4 bytes of hash160(serP(Kpar)); public child: hardened index refused, point IL*G + Kpar, same chain / depth / fingerprint rules; xprv text = Base58(78-byte layout ++ 4-byte sha256d checksum); both from_string functions enforce the 82-byte length and the checksum and decode the fields by position; a path segment yields an index < 2^31 plus 2^31 for the hardened markers without overflow. CKDpub(N(parent)) == N(CKDpriv(parent)) is a lemma from the distributivity axiom.',
        'level_note': TB + ' Cryptographic primitives are assumed, not verified.',
    },
    'C04': {
        'units': {
            'tx_cache': ['*'],
            'sighash_legacy': ['Transaction::sighash_legacy', 'Transaction::sighash_preimage_impl'],
            'sighash_forkid': ['Transaction::hash_inputs', 'Transaction::hash_sequence', 'Transaction::hash_outputs', 'Transaction::sighash_bip143'],
        },
        'assumptions': [SHA],
        'design_ref': 'DESIGN.md section 4 C04',
        'level_text': 'Inductive data-structure invariant proved by Verus on the real bodies of every constructor and every &mut self method of Transaction: each memoised hash slot is empty or equals the hash of the CURRENT inputs/outputs, for arbitrary prior state (mutators have no precondition), hence for all finite call histories, not a depth bound. Together with the C03/C10 contracts (result == spec(current contents)) the sighash is a function of the contents only.',
        'level_note': TB,
    },
}

NOT_CLAIMED = {
    'C17': 'not applicable to contract-based verification with the installed verifiers: every mechanism of the property is text processing (String / &str: format!, ToString of strum-generated opcode names, hex text, join / split / trim, matching on string literals, FromStr). Verus treats str contents as opaque (no byte or character reasoning; string-literal patterns, iterator adapters over split are rejected) and a Kani harness over symbolic strings through format!/strum/hex does not terminate within memory; a contract over uninterpreted text functions would only restate the code. A concrete violation found while reading the code is documented in DESIGN.md section 4 C17 (a one-byte push 0x10..0x16 renders as "10".."16" and re-parses as OP_10..OP_16; probe c17_one_byte_push_hex_collides_with_numeric_alias), but no check is registered',
    'C18': 'not applicable to contract-based verification: the behaviour lives in serde derive expansions and in serde_json/ciborium, there is no function body in /repo to put a contract on (DESIGN.md section 5)',
}
