"""Property -> units / function scopes / Kani leaves.  The property texts live in properties.jsonl (fixed)."""

PROPS = {
    'C04': {
        'units': {
            'tx_cache': ['*'],
        },
        'assumptions': [
            'sha256 is an uninterpreted function (the sha2 crate is assumed to compute it)',
        ],
        'design_ref': 'DESIGN.md section 4 C04',
        'level_text': 'Inductive data-structure invariant proved by Verus on the real bodies of every constructor and every &mut self method of Transaction: each memoised hash slot is empty or equals the hash of the CURRENT inputs/outputs, for arbitrary prior state (mutators have no precondition), hence for all finite call histories, not a depth bound. Together with the C03/C10 contracts (result == spec(current contents)) the sighash is a function of the contents only.',
        'level_note': 'Trusted: Verus/Z3; the extraction rules of DESIGN 2.2; derive(Clone) is structural; Vec operations per vstd; sha256 uninterpreted.',
    },
}

NOT_CLAIMED = {
    'C01': 'not reached yet (unit tx_wire under construction)',
    'C02': 'not reached yet',
    'C03': 'not reached yet',
    'C05': 'not reached yet',
    'C06': 'not reached yet',
    'C07': 'not reached yet',
    'C08': 'not reached yet',
    'C09': 'not reached yet',
    'C10': 'not reached yet',
    'C11': 'not reached yet',
    'C12': 'not reached yet',
    'C13': 'not reached yet',
    'C14': 'not reached yet',
    'C15': 'not reached yet',
    'C16': 'not reached yet',
    'C17': 'not reached yet',
    'C18': 'not applicable to contract-based verification: the behaviour lives in serde derive expansions and in serde_json/ciborium, there is no function body in /repo to put a contract on (DESIGN.md section 5)',
    'C19': 'not reached yet',
    'C20': 'not reached yet',
}
