"""Replay probes: concrete inputs run against the REAL library (crate /verif/probe, path dependency on the tree being
checked). Used only AFTER a check has reported a violation, to attach a failing input where one is known."""
import fnmatch
import json
import os
import shutil
import subprocess

from . import gen

PDIR = os.path.join(gen.VERIF, 'probe')
_built = {}


def _build():
    if gen.REPO in _built:
        return _built[gen.REPO]
    if gen.REPO == '/repo':
        d, target = PDIR, os.path.join(gen.VERIF, 'work', 'probe-target')
    else:
        d, target = os.path.join(gen.OUT, 'probe'), os.path.join(gen.OUT, 'probe-target')
        os.makedirs(os.path.join(d, 'src'), exist_ok=True)
        open(os.path.join(d, 'Cargo.toml'), 'w').write(open(os.path.join(PDIR, 'Cargo.toml')).read().replace('"/repo"', '"%s"' % gen.REPO))
        shutil.copyfile(os.path.join(PDIR, 'Cargo.lock'), os.path.join(d, 'Cargo.lock'))
        shutil.copyfile(os.path.join(PDIR, 'src', 'main.rs'), os.path.join(d, 'src', 'main.rs'))
    env = dict(os.environ, CARGO_NET_OFFLINE='true', CARGO_TARGET_DIR=target)
    try:
        p = subprocess.run(['cargo', 'build', '--offline', '-q'], cwd=d, env=env, stdout=subprocess.PIPE, stderr=subprocess.STDOUT, text=True, timeout=900)
        binp = os.path.join(target, 'debug', 'bsv-probe')
        _built[gen.REPO] = binp if p.returncode == 0 and os.path.exists(binp) else None
    except subprocess.TimeoutExpired:
        _built[gen.REPO] = None
    return _built[gen.REPO]


def failing_probe(obligation):
    """Returns (probe name, output) of the first mapped probe that FAILS on the tree being checked, else None."""
    try:
        mp = json.load(open(os.path.join(PDIR, 'map.json')))['map']
    except Exception:
        return None
    names = []
    for glob, probes in mp:
        if fnmatch.fnmatchcase(obligation, glob):
            names += [p for p in probes if p not in names]
    if not names:
        return None
    binp = _build()
    if not binp:
        return None
    for n in names:
        try:
            p = subprocess.run([binp, n], stdout=subprocess.PIPE, stderr=subprocess.STDOUT, text=True, timeout=120)
        except subprocess.TimeoutExpired:
            continue
        out = p.stdout.strip().splitlines()
        if out and out[-1].endswith(': FAILS'):
            return n, '\n'.join(out[-12:])
    return None
