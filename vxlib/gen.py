"""Unit generator: expands units/<unit>.rs templates into work/<unit>.rs.

Everything executable that ends up in a verified function body is read from
/repo's working tree at generation time (never stored under /verif).  What the
generator changes is a closed list (DESIGN.md section 2.2): comments and
attributes dropped, struct fields widened to pub, contract text spliced in
front of the body, loop annotations / proof blocks spliced at anchors, and the
lexical rewrite rules R1.. applied.  Every rewrite application is recorded.
"""
import hashlib
import json
import os
import re

from .rustscan import RustFile, ScanError, mask, match_close, strip_comments, norm_ws

REPO = os.environ.get('VX_REPO', '/repo')
VERIF = os.path.dirname(os.path.dirname(os.path.abspath(__file__)))
# where generated units, evidence and replay files go (default: /verif itself); VX_REPO + VX_OUT let a scratch
# worktree be checked without touching /repo or the committed evidence (used for the seeded-change regression)
OUT = os.environ.get('VX_OUT', VERIF)


CONST_RENAMES = []


class GenError(Exception):
    """Lost anchor / unsupported construct: exit 2, never an alarm."""


# --------------------------------------------------------------------------
# contract database
# --------------------------------------------------------------------------
class Contract:
    def __init__(self, key, src_path, origin):
        self.key = key              # 'Owner::name' or 'name'
        self.src_path = src_path    # relative to REPO
        self.origin = origin        # contracts file:line
        self.head = ''              # signature + requires/ensures
        self.directives = []        # (kind, arg, text)

    @property
    def owner(self):
        return self.key.rsplit('::', 1)[0] if '::' in self.key else ''

    @property
    def name(self):
        return self.key.rsplit('::', 1)[-1]


def load_contracts(cdir=None):
    cdir = cdir or os.path.join(VERIF, 'contracts')
    db = {}
    for fn in sorted(os.listdir(cdir)):
        if not fn.endswith('.vc'):
            continue
        path = os.path.join(cdir, fn)
        cur = None
        curdir = None
        for ln, line in enumerate(open(path), 1):
            if line.startswith('@fn '):
                m = re.match(r'@fn\s+(.+?)\s+@\s+(\S+)\s*$', line)
                if not m:
                    raise GenError('%s:%d: bad @fn line' % (path, ln))
                cur = Contract(m.group(1).strip(), m.group(2), '%s:%d' % (fn, ln))
                if cur.key in db:
                    raise GenError('%s:%d: duplicate contract %s' % (path, ln, cur.key))
                db[cur.key] = cur
                curdir = None
            elif line.startswith('@end'):
                cur = None
                curdir = None
            elif line.startswith('@') and cur is not None:
                m = re.match(r'@(\w+)\s*(.*?)\s*$', line)
                curdir = [m.group(1), m.group(2), '']
                cur.directives.append(curdir)
            elif line.startswith('#') and cur is None:
                continue
            elif cur is not None:
                if curdir is None:
                    cur.head += line
                else:
                    curdir[2] += line
            elif line.strip():
                raise GenError('%s:%d: text outside @fn..@end' % (path, ln))
    return db


# --------------------------------------------------------------------------
# rewrite rules
# --------------------------------------------------------------------------
def _find_matching(text, i):
    m, _ = mask(text)
    return match_close(m, i)


def _bytes_of_literal(lit):
    """bytes of a Rust byte-string literal body (between the quotes)"""
    out = []
    i = 0
    while i < len(lit):
        c = lit[i]
        if c == '\\':
            n = lit[i + 1]
            if n == 'n': out.append(10); i += 2
            elif n == 'r': out.append(13); i += 2
            elif n == 't': out.append(9); i += 2
            elif n == '0': out.append(0); i += 2
            elif n == '\\': out.append(92); i += 2
            elif n == '"': out.append(34); i += 2
            elif n == "'": out.append(39); i += 2
            elif n == 'x': out.append(int(lit[i + 2:i + 4], 16)); i += 4
            else: raise GenError('unsupported escape in byte string literal: \\' + n)
        else:
            out.append(ord(c)); i += 1
    return out


def rule_byte_strings(body, applied):
    """R20: byte-string literal b"..." -> (&[0x..u8, ...]) with the same bytes (Verus gives no contents to b"...")."""
    cnt = 0
    def repl(m):
        nonlocal cnt
        cnt += 1
        bs = _bytes_of_literal(m.group(1))
        return '(&[' + ', '.join('0x%02xu8' % b for b in bs) + '])'
    body = re.sub(r'(?<![A-Za-z0-9_])b"((?:[^"\\]|\\.)*)"', repl, body)
    if cnt:
        applied.append({'rule': 'R20', 'byte_string_literals': cnt})
    return body


def rule_lexical(body, applied):
    body = rule_byte_strings(body, applied)
    for cname in CONST_RENAMES:
        body, n = re.subn(r'\b' + re.escape(cname) + r'\b(?!\()', cname + '_v()', body)
        if n:
            applied.append({'rule': 'R20', 'const': cname, 'count': n})
    rules = [
        ('R1', r'\.to_le_bytes\(\)', '.to_le_bytes_v()'),
        ('R1', r'\.to_be_bytes\(\)', '.to_be_bytes_v()'),
        ('R1', r'\b(u16|u32|u64)::from_le_bytes\(', r'\1_from_le_bytes_v('),
        ('R1', r'\b(u16|u32|u64)::from_be_bytes\(', r'\1_from_be_bytes_v('),
        ('R2', r'\.extend\(', '.extend_v('),
        ('R18', r'\.as_bytes\(\)\.into\(\)', '.as_bytes().to_vec()'),
        ('R21', r'\.chunks_exact\(', '.chunks_exact_v('),
        ('R22', r'\bProjectivePoint::GENERATOR\b', 'ProjectivePoint::generator_v()'),
        ('R24', r'\.splice\(', '.splice_v('),
        ('R25', r'\bVec::with_capacity\(', 'vec_with_capacity_v('),
        ('D2', r'\buse\s+[A-Za-z_][A-Za-z0-9_:{}, *]*;', ''),
        ('R3', r'\|_\|', '|_v0|'),
        ('R3', r'\.map_err\((BSVErrors::[A-Za-z0-9_]+)\)', r'.map_err(|e_v0| \1(e_v0))'),
        ('R14', r'\blet\s+([A-Za-z_][A-Za-z0-9_]*)\s*=\s*&mut\s*\*', r'let mut \1 = '),
        ('R12', r'\bstd::io::ErrorKind\b', 'IoErrorKind'),
        ('R12', r'\bstd::io::Error\b', 'IoError'),
    ]
    for rid, pat, rep in rules:
        body, n = re.subn(pat, rep, body)
        if n:
            applied.append({'rule': rid, 'pattern': pat, 'count': n})
    return body


def _recv_start(text, dot):
    """text[dot] is the '.' of '.iter()'; walk left over a simple receiver expression."""
    i = dot - 1
    while i >= 0 and text[i].isspace():
        i -= 1
    while i >= 0:
        c = text[i]
        if c.isalnum() or c in '_.':
            i -= 1
        elif c.isspace() and text[i + 1] == '.':
            while i >= 0 and text[i].isspace():
                i -= 1
        elif c == ':' and i > 0 and text[i - 1] == ':':
            i -= 2
        elif c in ')]':
            # balanced group to the left
            closer = c
            opener = '(' if c == ')' else '['
            d = 0
            while i >= 0:
                if text[i] == closer:
                    d += 1
                elif text[i] == opener:
                    d -= 1
                    if d == 0:
                        break
                i -= 1
            i -= 1
        elif c == '&' or c == '*' or c == '?':
            i -= 1
        else:
            break
    return i + 1


def rule_zip_map(body, applied):
    """R7: `B.iter().zip(A.iter()).map(|(&x1, &x2)| E).collect()` -> index loop up to min(B.len(), A.len()); E copied token-for-token."""
    k = 0
    while True:
        m = re.search(r'\.iter\(\)\s*\.zip\(\s*([A-Za-z_][A-Za-z0-9_.]*)\.iter\(\)\s*\)\s*\.map\(\s*\|\s*\(\s*&\s*([A-Za-z_][A-Za-z0-9_]*)\s*,\s*&\s*([A-Za-z_][A-Za-z0-9_]*)\s*\)\s*\|', body)
        if not m:
            break
        other, v1, v2 = m.group(1), m.group(2), m.group(3)
        popen = m.start() + body[m.start():m.end()].index('.map') + len('.map')
        pclose = _find_matching(body, popen)
        expr = body[m.end():pclose].strip()
        rest = body[pclose + 1:]
        cm = re.match(r'\s*\.collect(::<[^()]*>)?\(\)', rest)
        if not cm:
            raise GenError('R7: zip/map chain without .collect()')
        end = pclose + 1 + cm.end()
        rs = _recv_start(body, m.start())
        recv = body[rs:m.start()].strip()
        loop = ('{ let mut acc_z%d = Vec::new(); let mut idx_z%d: usize = 0;\n'
                'while idx_z%d < %s.len() && idx_z%d < %s.len() {\n'
                'let %s = %s[idx_z%d]; let %s = %s[idx_z%d];\n'
                'let item_z%d = %s;\nacc_z%d.push(item_z%d);\nidx_z%d += 1;\n}\nacc_z%d }') % (k, k, k, recv, k, other, v1, recv, k, v2, other, k, k, expr, k, k, k, k)
        body = body[:rs] + loop + body[end:]
        applied.append({'rule': 'R7', 'receivers': [recv, other], 'closure_body_sha256': hashlib.sha256(norm_ws(expr).encode()).hexdigest()[:16]})
        k += 1
    return body


def rule_iter_chains(body, applied):
    """R4/R5: RECV.iter().flat_map(|x| B).collect()  /  RECV.iter().map(|x| B).collect()
    -> index loop.  B is copied token-for-token."""
    counter = 0
    while True:
        m = re.search(r'\.iter\(\)\s*\.(flat_map|map)\(\s*\|\s*([A-Za-z_][A-Za-z0-9_]*)\s*\|', body)
        if not m:
            break
        kind = m.group(1)
        var = m.group(2)
        # opening paren of flat_map(
        popen = body.index('(', m.start() + len('.iter()'))
        popen = body.index('(', m.start() + 7)
        # find the '(' right after flat_map/map
        popen = m.start() + body[m.start():m.end()].index(kind) + len(kind)
        pclose = _find_matching(body, popen)
        closure_body = body[m.end():pclose].strip()
        rest = body[pclose + 1:]
        cm = re.match(r'\s*\.collect(::<[^()]*>)?\(\)', rest)
        if not cm:
            raise GenError('R4/R5: iterator chain without .collect(): ' + body[m.start():m.start() + 60])
        end = pclose + 1 + cm.end()
        rs = _recv_start(body, m.start())
        recv = body[rs:m.start()].strip()
        k = counter
        counter += 1
        add = 'acc_v%d.extend_v(item_v%d);' % (k, k) if kind == 'flat_map' else 'acc_v%d.push(item_v%d);' % (k, k)
        pre_bind = ''
        if '(' in recv or '?' in recv:
            # not a place expression: evaluate it once
            pre_bind = 'let recv_v%d = %s; ' % (k, recv)
            recv = 'recv_v%d' % k
        loop = ('{ ' + pre_bind + 'let mut acc_v%d = Vec::new(); let mut idx_v%d: usize = 0;\n'
                'while idx_v%d < %s.len() {\n'
                'let %s = &%s[idx_v%d];\n'
                'let item_v%d = %s;\n'
                '%s\nidx_v%d += 1;\n}\n'
                'acc_v%d }') % (k, k, k, recv, var, recv, k, k, closure_body, add, k, k)
        loop = loop.replace('{ { ', '{ ', 1) if loop.startswith('{ { ') else loop
        body = body[:rs] + loop + body[end:]
        applied.append({'rule': 'R4' if kind == 'flat_map' else 'R5', 'receiver': recv, 'closure_param': var,
                        'closure_body_sha256': hashlib.sha256(norm_ws(closure_body).encode()).hexdigest()[:16]})
    return body


def rule_iter_mut_for_each(body, applied):
    """R6: RECV.iter_mut().for_each(|x| B) -> index loop with let x = &mut RECV[idx]."""
    k = 0
    while True:
        m = re.search(r'\.iter_mut\(\)\s*\.for_each\(\s*\|\s*([A-Za-z_][A-Za-z0-9_]*)\s*\|', body)
        if not m:
            break
        var = m.group(1)
        popen = m.start() + body[m.start():m.end()].index('for_each') + len('for_each')
        pclose = _find_matching(body, popen)
        cb = body[m.end():pclose].strip()
        rs = _recv_start(body, m.start())
        recv = body[rs:m.start()].strip()
        # B mentions var as receiver: VAR.method(args) -> RECV[idx].method(args)
        cb2 = re.sub(r'\b' + re.escape(var) + r'\b', '%s[idx_m%d]' % (recv, k), cb)
        loop = ('let mut idx_m%d: usize = 0;\nwhile idx_m%d < %s.len() {\n%s;\nidx_m%d += 1;\n}\n'
                % (k, k, recv, cb2, k))
        body = body[:rs] + loop + body[pclose + 1:]
        applied.append({'rule': 'R6', 'receiver': recv, 'closure_param': var,
                        'closure_body_sha256': hashlib.sha256(norm_ws(cb).encode()).hexdigest()[:16]})
        k += 1
    return body


def rule_for_over_vec(body, applied):
    """R11: `for PAT in EXPR { B }` with EXPR a plain (optionally borrowed) place expression naming a Vec
    -> `{ let mut idx_fK = 0; while idx_fK < EXPR.len() { let PAT = &EXPR[idx_fK]; idx_fK += 1; B } }`.
    Ranges and method-call iterators are left to Verus' native for-loop support."""
    k = 0
    pos = 0
    while True:
        m, _ = mask(body)
        mm = re.compile(r'\bfor\s+([A-Za-z_][A-Za-z0-9_]*)\s+in\s+(&?\s*[A-Za-z_][A-Za-z0-9_.]*)\s*\{').search(m, pos)
        if not mm:
            break
        pat, expr = mm.group(1), mm.group(2)
        ob = mm.end() - 1
        cb = match_close(m, ob)
        place = expr.lstrip('&').strip()
        hdr = 'let mut idx_f%d: usize = 0; while idx_f%d < %s.len() {' % (k, k, place)
        first = ' let %s = &%s[idx_f%d]; idx_f%d += 1;' % (pat, place, k, k)
        body = body[:mm.start()] + hdr + first + body[ob + 1:cb + 1] + body[cb + 1:]
        applied.append({'rule': 'R11', 'pattern': 'for %s in %s' % (pat, expr)})
        pos = mm.start() + len(hdr)
        k += 1
    return body


def rule_for_zip_enumerate(body, applied):
    """R26: `for (I, (A, B)) in X.iter().zip(Y.iter()).enumerate() { BODY }`
    -> `let mut idx_zK: usize = 0; while idx_zK < X.len() && idx_zK < Y.len() { let I = idx_zK; let A = &X[idx_zK]; let B = &Y[idx_zK]; idx_zK += 1; BODY }`
    (zip stops at the shorter operand; enumerate counts from 0). BODY is copied token-for-token; it must not `continue`."""
    k = 0
    while True:
        m, _ = mask(body)
        mm = re.compile(r'\bfor\s+\(\s*(\w+)\s*,\s*\(\s*(\w+)\s*,\s*(\w+)\s*\)\s*\)\s+in\s+([A-Za-z_][\w.]*)\.iter\(\)\.zip\(\s*([A-Za-z_][\w.]*)\.iter\(\)\s*\)\.enumerate\(\)\s*\{').search(m)
        if not mm:
            break
        i, a, b, x, y = mm.groups()
        ob = mm.end() - 1
        cb = match_close(m, ob)
        if re.search(r'\bcontinue\b', m[ob:cb]):
            raise GenError('R26: loop body uses continue')
        hdr = 'let mut idx_z%d: usize = 0; while idx_z%d < %s.len() && idx_z%d < %s.len() {' % (k, k, x, k, y)
        first = ' let %s = idx_z%d; let %s = &%s[idx_z%d]; let %s = &%s[idx_z%d]; idx_z%d += 1;' % (i, k, a, x, k, b, y, k, k)
        body = body[:mm.start()] + hdr + first + body[ob + 1:]
        applied.append({'rule': 'R26', 'pattern': 'for (%s, (%s, %s)) in %s.iter().zip(%s.iter()).enumerate()' % (i, a, b, x, y)})
        k += 1
    return body


def rule_enumerate_find_filter_map(body, applied):
    """R8: `X.iter().enumerate().find_map(|(I, T)| E)` -> block with an index loop returning the first `Some`;
    `X.iter().enumerate().filter_map(|(I, T)| E).collect()` -> block with an index loop pushing every `Some` payload.
    E is copied token-for-token."""
    k = 0
    while True:
        m, _ = mask(body)
        mm = re.compile(r'((?:[A-Za-z_]\w*)(?:\s*\.\s*[A-Za-z_]\w*)*?)\s*\.\s*iter\(\)\s*\.\s*enumerate\(\)\s*\.\s*(find_map|filter_map)\(\s*\|\s*\(\s*(\w+)\s*,\s*(\w+)\s*\)\s*\|').search(m)
        if not mm:
            break
        x, which, i, t = mm.groups()
        x = re.sub(r'\s+', '', x)
        # closure body: up to the closing paren of find_map( at depth 0
        op = m.index('(', mm.start(2))
        cp = match_close(m, op)
        expr = body[mm.end():cp]
        end = cp + 1
        if which == 'filter_map':
            tail = re.compile(r'\s*\.collect\(\)').match(m, end)
            if not tail:
                raise GenError('R8: filter_map chain without .collect()')
            end = tail.end()
            rep = ('{ let mut acc_e%d = Vec::new(); let mut idx_e%d: usize = 0; while idx_e%d < %s.len() { let %s = idx_e%d; let %s = &%s[idx_e%d]; idx_e%d += 1; '
                   'match (%s) { Some(item_e%d) => { acc_e%d.push(item_e%d); } None => {} } } acc_e%d }') % (k, k, k, x, i, k, t, x, k, k, expr, k, k, k, k)
        else:
            rep = ('{ let mut res_e%d = None; let mut idx_e%d: usize = 0; while idx_e%d < %s.len() { let %s = idx_e%d; let %s = &%s[idx_e%d]; idx_e%d += 1; '
                   'match (%s) { Some(item_e%d) => { res_e%d = Some(item_e%d); break; } None => {} } } res_e%d }') % (k, k, k, x, i, k, t, x, k, k, expr, k, k, k, k)
        body = body[:mm.start()] + rep + body[end:]
        applied.append({'rule': 'R8', 'pattern': '%s.iter().enumerate().%s(|(%s, %s)| ..)' % (x, which, i, t),
                        'closure_body_sha256': hashlib.sha256(norm_ws(expr).encode()).hexdigest()[:16]})
        k += 1
    return body


def rule_matches_macro(body, applied):
    """R27: `matches!(E, PAT)` / `matches!(E, PAT if G)` -> `(match E { PAT [if G] => true, _ => false })`, which is the
    definition of std's matches! (the macro argument is otherwise opaque to the verus! syntax transformation)."""
    n = 0
    while True:
        m, _ = mask(body)
        mm = re.search(r'\bmatches!\(', m)
        if not mm:
            break
        op = mm.end() - 1
        cp = match_close(m, op)
        inner_m = m[op + 1:cp]
        # split at the first top-level comma
        depth = 0
        cut = None
        for i, c in enumerate(inner_m):
            if c in '([{':
                depth += 1
            elif c in ')]}':
                depth -= 1
            elif c == ',' and depth == 0:
                cut = i
                break
        if cut is None:
            raise GenError('R27: matches! without a pattern')
        inner = body[op + 1:cp]
        expr, pat = inner[:cut].strip(), inner[cut + 1:].strip().rstrip(',')
        body = body[:mm.start()] + '(match %s { %s => true, _ => false })' % (expr, pat) + body[cp + 1:]
        n += 1
    if n:
        applied.append({'rule': 'R27', 'pattern': 'matches!(E, P) -> match E { P => true, _ => false }', 'count': n})
    return body


def rule_for_enumerate(body, applied):
    """R29: `for (I, X) in E.iter().enumerate() { B }` -> `for I in 0..E.len() { let X = &E[I]; B }` and
    `for (I, X) in E.iter_mut().enumerate() { B }` -> `for I in 0..E.len() { let X = &mut E[I]; B }`
    (E a place expression; enumerate counts from 0 over the elements in order). A pattern `&X` binds by value: `let X = E[I];`."""
    n = 0
    while True:
        m, _ = mask(body)
        mm = re.compile(r'\bfor\s+\(\s*(\w+)\s*,\s*(&?\s*\w+)\s*\)\s+in\s+((?:[A-Za-z_]\w*)(?:\s*\.\s*[A-Za-z_]\w*)*?)\s*\.\s*(iter|iter_mut)\(\)\s*\.\s*enumerate\(\)\s*\{').search(m)
        if not mm:
            break
        i, x, e, kind = mm.groups()
        e = re.sub(r'\s+', '', e)
        x = x.replace(' ', '')
        if x.startswith('&'):
            bind = 'let %s = %s[%s];' % (x[1:], e, i)
        elif kind == 'iter_mut':
            bind = 'let %s = &mut %s[%s];' % (x, e, i)
        else:
            bind = 'let %s = &%s[%s];' % (x, e, i)
        body = body[:mm.start()] + 'for %s in 0..%s.len() { %s' % (i, e, bind) + body[mm.end():]
        applied.append({'rule': 'R29', 'pattern': 'for (%s, %s) in %s.%s().enumerate()' % (i, x, e, kind)})
        n += 1
    return body


def rule_defunctionalise(body, applied):
    """R15: `let f = match V { P1 => g::<T1>, P2 => g::<T2>, .. }; ... f(args);`  (Verus has no function pointers)
    -> the `let` is removed and the call becomes `match V { P1 => g::<T1>(args), P2 => g::<T2>(args), .. };`.
    V must be a plain variable; patterns and instantiations are copied token-for-token."""
    m = re.search(r'let\s+([A-Za-z_][A-Za-z0-9_]*)\s*=\s*match\s+([A-Za-z_][A-Za-z0-9_]*)\s*\{((?:\s*[^=;{}]+=>\s*[A-Za-z_][A-Za-z0-9_:]*::<[^;{}]*?>\s*,)+)\s*\}\s*;', body)
    if not m:
        return body
    fname, var, arms = m.group(1), m.group(2), m.group(3)
    call = re.search(r'\b' + re.escape(fname) + r'\(([^;]*)\)\s*;', body[m.end():])
    if not call:
        raise GenError('R15: function value %s is never called' % fname)
    if len(re.findall(r'\b' + re.escape(fname) + r'\b', body)) != 2:
        raise GenError('R15: function value %s used more than once' % fname)
    args = call.group(1)
    new_arms = re.sub(r'(=>\s*[A-Za-z_][A-Za-z0-9_:]*::<[^;{}]*?>)\s*,', lambda a: a.group(1) + '(' + args + '),', arms)
    cs = m.end() + call.start()
    ce = m.end() + call.end()
    body = body[:m.start()] + body[m.end():cs] + 'match ' + var + ' {' + new_arms + '\n};' + body[ce:]
    applied.append({'rule': 'R15', 'function_value': fname, 'selector': var})
    return body


def rule_and_then_chain(body, applied):
    """R17: `E0.and_then(|_| E1).and_then(|_| E2) ... ?;` (closures capturing &mut, which Verus cannot take)
    -> `E0?; E1?; E2?; ...` - the same short-circuiting sequence; every Ei is copied token-for-token."""
    cnt = 0
    while True:
        m, _ = mask(body)
        i = m.find('.and_then(|_v0|')
        if i < 0:
            break
        # statement start: previous ';' or '{' or '}'
        st = max(m.rfind(';', 0, i), m.rfind('{', 0, i), m.rfind('}', 0, i)) + 1
        parts = [body[st:i].strip()]
        j = i
        while m.startswith('.and_then(|_v0|', j):
            po = j + len('.and_then')
            pc = match_close(m, po)
            parts.append(body[po + len('(|_v0|'):pc].strip())
            j = pc + 1
            while j < len(m) and m[j].isspace():
                j += 1
        if not m.startswith('?;', j):
            raise GenError('R17: and_then chain not terminated by `?;`')
        body = body[:st] + '\n' + '\n'.join(p_ + '?;' for p_ in parts) + body[j + 2:]
        cnt += 1
    if cnt:
        applied.append({'rule': 'R17', 'chains': cnt})
    return body


def rule_for_range_with_continue(body, applied):
    """R13: `for i in A..B { ..continue.. }` (Verus' for-loops do not support `continue`)
    -> `{ let mut idx_rK = A; let end_rK = B; while idx_rK < end_rK { let i = idx_rK; idx_rK += 1; ... } }`."""
    k = 0
    pos = 0
    while True:
        m, _ = mask(body)
        mm = re.compile(r'\bfor\s+([A-Za-z_][A-Za-z0-9_]*)\s+in\s+([^{};]*?)\.\.([^{};=]*?)\s*\{').search(m, pos)
        if not mm:
            break
        ob = mm.end() - 1
        cb = match_close(m, ob)
        inner = m[ob:cb]
        if not re.search(r'\bcontinue\b', inner):
            pos = mm.end()
            continue
        var, lo, hi = mm.group(1), body[mm.start(2):mm.end(2)].strip(), body[mm.start(3):mm.end(3)].strip()
        hdr = 'let mut idx_r%d = %s; let end_r%d = %s; while idx_r%d < end_r%d {' % (k, lo, k, hi, k, k)
        first = ' let %s = idx_r%d; idx_r%d += 1;' % (var, k, k)
        body = body[:mm.start()] + hdr + first + body[ob + 1:cb + 1] + body[cb + 1:]
        applied.append({'rule': 'R13', 'pattern': 'for %s in %s..%s with continue' % (var, lo, hi)})
        pos = mm.start() + len(hdr)
        k += 1
    return body


# --------------------------------------------------------------------------
# loops and anchors
# --------------------------------------------------------------------------
def find_loops(body):
    """Return list of (kw_pos, open_brace, close_brace) in textual order."""
    m, _ = mask(body)
    loops = []
    for mm in re.finditer(r'\b(while|for|loop)\b', m):
        p = mm.start()
        if p > 0 and m[p - 1] in '._':
            continue
        if mm.group(1) == 'for':
            # skip `for<'a>` and `impl X for Y`
            after = m[mm.end():mm.end() + 2]
            if after.startswith('<'):
                continue
        j = mm.end()
        depth = 0
        n = len(m)
        ok = False
        while j < n:
            c = m[j]
            if c in '([':
                depth += 1
            elif c in ')]':
                depth -= 1
            elif c == '{' and depth == 0:
                ok = True
                break
            elif c == ';' and depth == 0:
                break
            j += 1
        if not ok:
            continue
        loops.append((p, j, match_close(m, j)))
    return loops


def find_closures(body):
    """[(start_of_params, end_of_params, body_start, body_end)] for closures in argument / initialiser position."""
    m, _ = mask(body)
    res = []
    for mm in re.finditer(r'\|([^|\n;{}]*)\|', m):
        j = mm.start() - 1
        while j >= 0 and m[j].isspace():
            j -= 1
        if j < 0 or m[j] not in '(,=':
            continue
        # body: up to the first ',' or closing bracket at depth 0
        k = mm.end()
        depth = 0
        n = len(m)
        while k < n:
            c = m[k]
            if c in '([{':
                depth += 1
            elif c in ')]}':
                if depth == 0:
                    break
                depth -= 1
            elif c == ',' and depth == 0:
                break
            k += 1
        res.append((mm.start(), mm.end(), mm.end(), k))
    return res


def annotate_closures(body, contract, applied):
    """A4: `@closure K -> (r: T) ensures E` gives the K-th closure (textual order) a return name and an ensures
    clause; its body expression is wrapped in braces, otherwise untouched."""
    dirs = [(arg, text) for kind, arg, text in contract.directives if kind == 'closure']
    if not dirs:
        return body
    edits = []
    cl = find_closures(body)
    for arg, text in dirs:
        mm = re.match(r'(\d+)\s*(->.*)$', (arg + ' ' + text.strip()).strip(), re.S)
        if not mm:
            raise GenError('%s: bad @closure' % contract.origin)
        k = int(mm.group(1))
        if k >= len(cl):
            raise GenError('%s: %s has %d closures, contract names closure %d (lost anchor)' % (contract.origin, contract.key, len(cl), k))
        ps, pe, bs, be = cl[k]
        expr = body[bs:be].strip()
        if expr.startswith('->'):
            raise GenError('%s: closure %d already has a return annotation' % (contract.origin, k))
        edits.append((bs, be, ' ' + mm.group(2).strip() + ' { ' + expr + ' }'))
    for bs, be, new in sorted(edits, reverse=True):
        body = body[:bs] + new + body[be:]
    applied.append({'rule': 'A4', 'closures_annotated': len(edits)})
    return body


def splice(body, contract, applied):
    """Apply contract directives to the (already rewritten) body."""
    body = annotate_closures(body, contract, applied)
    # 1. site-specific substitutions first (they can create loops)
    for kind, arg, text in contract.directives:
        if kind == 'rule':
            if arg.strip() == 'R9':
                body, n = re.subn(r'\.iter\(\)', '.iter_v()', body)
                applied.append({'rule': 'R9', 'pattern': '.iter() -> .iter_v()', 'count': n})
            elif arg.strip().startswith('R18'):
                names = arg.split()[1:]
                n = 0
                for nm in names:
                    if nm == 'slices':
                        body, k = re.subn(r'(\[[^\[\]]*\.\.[^\[\]]*\])\.into\(\)', r'\1.to_vec()', body)
                    else:
                        body, k = re.subn(r'\b' + re.escape(nm) + r'\.into\(\)', nm + '.to_vec()', body)
                    n += k
                applied.append({'rule': 'R18', 'pattern': '<byte slice>.into() -> .to_vec() (From<&[u8]> for Vec<u8>)', 'count': n})
            elif arg.strip() == 'R23':
                n = 0
                for a_, b_ in ((r'\.ends_with\(', '.ends_with_v('), (r'\.to_lowercase\(\)', '.to_lowercase_v()'), (r'\.trim_end_matches\(', '.trim_end_matches_v('), (r'\.parse::<u32>\(\)', '.parse_u32_v()')):
                    body, k = re.subn(a_, b_, body)
                    n += k
                applied.append({'rule': 'R23', 'pattern': 'str methods -> shim trait methods with uninterpreted results', 'count': n})
            elif arg.strip() == 'R28':
                n = 0
                for a_, b_ in ((r'\bu8::from_str\(', 'u8_from_str_v('), (r'\busize::from_str\(', 'usize_from_str_v('), (r'\.starts_with\(', '.starts_with_v('), (r'\.split_once\(', '.split_once_v(')):
                    body, k = re.subn(a_, b_, body)
                    n += k
                applied.append({'rule': 'R28', 'pattern': 'FromStr for u8/usize, str::starts_with / split_once -> shim functions with uninterpreted results', 'count': n})
            elif arg.strip() == 'R19':
                body, n = re.subn(r'\.try_into\(\)', '.try_into_v()', body)
                applied.append({'rule': 'R19', 'pattern': 'slice.try_into() -> slice.try_into_v() (std slice-to-array TryFrom)', 'count': n})
            else:
                raise GenError('%s: unknown @rule %s' % (contract.origin, arg))
        if kind == 'subst':
            mm = re.match(r'`(.*)`\s*=>\s*`(.*)`$', arg, re.S)
            if not mm:
                raise GenError('%s: bad @subst' % contract.origin)
            old, new = mm.group(1), mm.group(2)
            if text.strip():
                new = new + text.rstrip('\n')
            cnt = body.count(old)
            if cnt != 1:
                raise GenError('%s: @subst anchor `%s` occurs %d times in %s (lost anchor)' % (contract.origin, old, cnt, contract.key))
            body = body.replace(old, new)
            applied.append({'rule': 'S', 'before': old, 'after': new})
    # 2. collect insertions as (position, order, text)
    ins = []
    loops = find_loops(body)
    nloop_dirs = set()
    degraded = []
    for idx, (kind, arg, text) in enumerate(contract.directives):
        if kind in ('subst', 'rule', 'closure', 'stubonly', 'isolated'):
            continue
        if kind == 'foriter':
            k, nm = arg.split()
            k = int(k)
            if k >= len(loops):
                raise GenError('%s: %s has %d loops, contract names loop %d (lost anchor)' % (contract.origin, contract.key, len(loops), k))
            kw = loops[k][0]
            mm = re.compile(r'\bin\s+').search(body, kw)
            if not mm or mm.start() > loops[k][1]:
                raise GenError('%s: loop %d of %s is not a for loop' % (contract.origin, k, contract.key))
            ins.append((mm.end(), idx, nm + ': '))
            continue
        if kind in ('loop', 'loopend', 'loopbegin', 'afterloop'):
            try:
                k = int(arg)
            except ValueError:
                raise GenError('%s: bad loop ordinal %r' % (contract.origin, arg))
            if k >= len(loops):
                # the function now has fewer loops than the contract annotates: the annotation (a proof aid, not part
                # of the contract) is dropped and the function is verified against its contract without it
                degraded.append('%s %d' % (kind, k))
                continue
            kw, ob, cb = loops[k]
            if kind == 'loop':
                ins.append((ob, idx, '\n' + text))
                nloop_dirs.add(k)
            elif kind == 'loopbegin':
                ins.append((ob + 1, idx, '\n' + text))
            elif kind == 'loopend':
                ins.append((cb, idx, '\n' + text))
            else:
                ins.append((cb + 1, idx, '\n' + text))
        elif kind == 'begin':
            ins.append((body.index('{') + 1, idx, '\n' + text))
        elif kind in ('before', 'after'):
            mm = re.match(r'`(.*)`$', arg, re.S)
            if not mm:
                raise GenError('%s: bad @%s' % (contract.origin, kind))
            a = mm.group(1)
            cnt = body.count(a)
            if cnt == 0:
                # the statement the proof hint was attached to is gone: the hint (a proof aid, not part of the
                # contract) is dropped and the function is verified against its contract without it
                degraded.append('%s `%s`' % (kind, a[:60]))
                continue
            if cnt != 1:
                raise GenError('%s: anchor `%s` occurs %d times in %s (lost anchor)' % (contract.origin, a, cnt, contract.key))
            p = body.index(a)
            ins.append((p if kind == 'before' else p + len(a), idx, ('\n' + text) if kind == 'after' else text))
        else:
            raise GenError('%s: unknown directive @%s' % (contract.origin, kind))
    for pos, _, text in sorted(ins, key=lambda t: (-t[0], -t[1])):
        body = body[:pos] + text + body[pos:]
    # the number of loops the annotations were written for (contracts/loopcounts.json, stamped by `./vx stamp` on the
    # unchanged tree): a different count means loops were added / removed / possibly re-ordered, so invariants may be
    # attached to the wrong loop or a new loop has none - the function is degraded (its failures are undecided)
    exp = LOOPCOUNTS.get(contract.key)
    if exp is not None and exp != len(loops) and not STAMPING:
        degraded.append('loop count changed: annotations were written for %d loop(s), the body now has %d' % (exp, len(loops)))
    if degraded:
        applied.append({'rule': 'DEGRADED', 'dropped_annotations': degraded})
    return body, len(loops)


# --------------------------------------------------------------------------
# signatures
# --------------------------------------------------------------------------
_SPEC_KW = re.compile(r'^\s*(requires|ensures|decreases|recommends|no_unwind|opens_invariants|returns)\b', re.M)


def head_signature(head):
    m = _SPEC_KW.search(head)
    sig = head[:m.start()] if m else head
    return sig.strip()


def norm_sig(sig):
    s = strip_comments(sig)
    s = re.sub(r'^\s*(#\[[^\]]*\]\s*)*', '', s)
    s = re.sub(r'^\s*pub(\s*\([^)]*\))?\s+', '', s)
    # -> (name: T)  ==>  -> T
    m = re.search(r'->\s*\(\s*[a-z_][A-Za-z0-9_]*\s*:', s)
    if m:
        # find matching paren
        po = s.index('(', m.start())
        pc = _find_matching(s, po)
        inner = s[po + 1:pc]
        inner = inner.split(':', 1)[1]
        s = s[:m.start()] + '-> ' + inner + s[pc + 1:]
    return norm_ws(s)


def desugar_impl_args(head):
    """E1: argument-position `x: impl Bound` -> named generic parameter `<ImplK: Bound>` / `x: ImplK`
    (the Rust-defined desugaring; Verus mis-handles `impl Trait` arguments that are mentioned in an ensures)."""
    sig = head_signature(head)
    rest = head[len(sig):] if head.startswith(sig) else head[head.index(sig) + len(sig):]
    pre = head[:head.index(sig)]
    gens = []
    def repl(m):
        k = len(gens)
        gens.append('Impl%d: %s' % (k, m.group(2).strip()))
        return '%s: Impl%d' % (m.group(1), k)
    # only in the parameter list (before '->' / where)
    po = sig.index('(')
    pc = _find_matching(sig, po)
    params = re.sub(r'([A-Za-z_][A-Za-z0-9_]*)\s*:\s*impl\s+([^,()]+(?:<[^()]*>)?)', repl, sig[po:pc + 1])
    if not gens:
        return head
    name_part = sig[:po]
    if name_part.rstrip().endswith('>'):
        i = name_part.rindex('<')
        name_part = name_part[:name_part.rstrip().rindex('>')] + ', ' + ', '.join(gens) + '>'
    else:
        name_part = name_part.rstrip() + '<' + ', '.join(gens) + '>'
    return pre + name_part + params + sig[pc + 1:] + rest


# --------------------------------------------------------------------------
# type extraction
# --------------------------------------------------------------------------
TYPE_MAP = [
    (r'\bk256::ecdsa::Signature\b', 'SecpSignature'),
    (r'\bstd::io::Error\b', 'IoError'),
    (r'\becdsa::Error\b', 'EcdsaError'),
    (r'\belliptic_curve::Error\b', 'CurveError'),
    (r'\bhex::FromHexError\b', 'FromHexError'),
    (r'\bbs58::decode::Error\b', 'Bs58DecodeError'),
    (r'\bgetrandom::Error\b', 'GetrandomError'),
    (r'\bserde_json::Error\b', 'SerdeJsonError'),
    (r'\bblock_modes::InvalidKeyIvLength\b', 'InvalidKeyIvLength'),
    (r'\bblock_modes::BlockModeError\b', 'BlockModeError'),
    (r'\bciborium::ser::Error<IoError>', 'CborSerError'),
    (r'\bciborium::de::Error<IoError>', 'CborDeError'),
]


def strip_attrs(decl):
    """Remove #[...] attributes (bracket-matched) from a comment-free declaration."""
    out = []
    i = 0
    m, _ = mask(decl)
    while i < len(decl):
        if m[i] == '#' and i + 1 < len(decl) and m[i + 1] == '[':
            i = match_close(m, i + 1) + 1
        else:
            out.append(decl[i])
            i += 1
    return ''.join(out)


def widen_fields(decl):
    """Make every field of a struct declaration pub (A5)."""
    decl = re.sub(r'\bpub\s*\([^)]*\)\s*', '', decl)
    decl = re.sub(r'\bpub\s+', '', decl)
    m, _ = mask(decl)
    # find first bracket
    i = min([p for p in (m.find('{'), m.find('(')) if p >= 0])
    close = match_close(m, i)
    inner = decl[i + 1:close]
    parts = []
    depth = 0
    cur = ''
    for ch in inner:
        if ch in '<([{':
            depth += 1
        elif ch in '>)]}':
            depth -= 1
        if ch == ',' and depth == 0:
            parts.append(cur)
            cur = ''
        else:
            cur += ch
    if cur.strip():
        parts.append(cur)
    parts = ['pub ' + p.strip() for p in parts if p.strip()]
    sep = ',\n    '
    return decl[:i + 1] + '\n    ' + sep.join(parts) + '\n' + decl[close:]


def default_clauses(decl, name):
    """Per-field postconditions of a derived Default (decl is the widened, attribute-free struct text)."""
    m, _ = mask(decl)
    i = min([p for p in (m.find('{'), m.find('(')) if p >= 0])
    close = match_close(m, i)
    tuple_struct = decl[i] == '('
    inner = decl[i + 1:close]
    parts, depth, cur = [], 0, ''
    for ch in inner:
        if ch in '<([{':
            depth += 1
        elif ch in '>)]}':
            depth -= 1
        if ch == ',' and depth == 0:
            parts.append(cur)
            cur = ''
        else:
            cur += ch
    if cur.strip():
        parts.append(cur)
    res = []
    for k, p in enumerate(parts):
        p = re.sub(r'^\s*pub\s+', '', p.strip())
        if tuple_struct:
            fname, ty = str(k), p
        else:
            fname, ty = [x.strip() for x in p.split(':', 1)]
        if ty == 'bool':
            res.append('!r.%s' % fname)
        elif ty.startswith('Vec<'):
            res.append('r.%s@.len() == 0' % fname)
        elif ty in ('u8', 'u16', 'u32', 'u64', 'usize', 'i32', 'i64'):
            res.append('r.%s == 0' % fname)
        elif ty.startswith('Option<'):
            res.append('r.%s is None' % fname)
        elif ty in ('Sha256', 'Sha512', 'Sha1', 'Ripemd160'):
            res.append('r.%s.absorbed@ == Seq::<u8>::empty()' % fname)
        elif ty == 'Hash':
            res.append('r.%s.0@.len() == 0' % fname)
        else:
            raise GenError('struct %s: derived Default for field type %s not supported' % (name, ty))
    return res


def extract_type(kind, name, relpath, opts, info):
    rf = RustFile(os.path.join(REPO, relpath))
    try:
        attrs, decl, _ = rf.find_type(kind, name)
    except ScanError as e:
        raise GenError(str(e))
    derives = []
    for a in attrs:
        dm = re.match(r'#\[derive\((.*)\)\]', a, re.S)
        if dm:
            derives += [d.strip() for d in dm.group(1).split(',')]
    raw = decl
    decl = strip_comments(decl)
    from_variants = []
    if kind == 'enum':
        # remember #[from] variants before dropping attributes:  Variant( #[source] #[from] Type, )
        for vm in re.finditer(r'([A-Z][A-Za-z0-9_]*)\s*\(\s*((?:#\[[a-z]+\]\s*)+)([^,()]+?),?\s*\)', decl):
            if '#[from]' in vm.group(2):
                from_variants.append((vm.group(1), vm.group(3).strip()))
    decl = strip_attrs(decl)
    for pat, rep in TYPE_MAP:
        decl = re.sub(pat, rep, decl)
    out = []
    if kind == 'struct':
        decl = widen_fields(decl)
        out.append('pub ' + decl.strip())
        if 'clone' in opts:
            if 'Clone' not in derives:
                raise GenError('struct %s: template asks for derived Clone but source derives %s' % (name, derives))
            out.append('impl Clone for %s { #[verifier::external_body] fn clone(&self) -> (r: Self) ensures r == *self { unimplemented!() } }' % name)
            info['assumptions'].append('derive(Clone) on %s is structural (r == *self)' % name)
        if 'partialeqspec' in opts:
            # only for structs whose fields are integers / fixed-size arrays (value types: spec equality == element-wise equality)
            if 'PartialEq' not in derives:
                raise GenError('struct %s: template asks for derived PartialEq but source derives %s' % (name, derives))
            out.append('impl PartialEqSpecImpl<%s> for %s { open spec fn obeys_eq_spec() -> bool { true } open spec fn eq_spec(&self, o: &%s) -> bool { *self == *o } }' % (name, name, name))
            out.append('impl PartialEq for %s { #[verifier::external_body] fn eq(&self, o: &%s) -> (r: bool) { unimplemented!() } }' % (name, name))
            out.append('impl Eq for %s {}' % name)
            info['assumptions'].append('derive(PartialEq) on %s is structural (field-wise equality of value-type fields)' % name)
        if 'default' in opts:
            if 'Default' not in derives:
                raise GenError('struct %s: template asks for derived Default but source derives %s' % (name, derives))
            out.append('impl Default for %s { #[verifier::external_body] fn default() -> (r: Self) ensures %s { unimplemented!() } }'
                       % (name, ', '.join(default_clauses(decl, name))))
            info['assumptions'].append('derive(Default) on %s sets every field to its type default' % name)
    else:
        want = [d for d in ('Clone', 'Copy', 'PartialEq', 'Eq') if d in derives and d.lower() in opts]
        if 'clonespec' in opts:
            if 'Clone' not in derives:
                raise GenError('enum %s: template asks for derived Clone but source derives %s' % (name, derives))
            info['assumptions'].append('derive(Clone) on %s is structural (r == *self)' % name)
        decl = re.sub(r'\s*\n\s*\n', '\n', decl)
        if want:
            out.append('#[derive(%s)]' % ', '.join(want))
        out.append('#[allow(non_camel_case_types)]')
        out.append('pub ' + decl.strip())
        if 'clonespec' in opts:
            out.append('impl Clone for %s { #[verifier::external_body] fn clone(&self) -> (r: Self) ensures r == *self { unimplemented!() } }' % name)
        if 'partialeqspec' in opts:
            if 'PartialEq' not in derives:
                raise GenError('enum %s: template asks for derived PartialEq but source derives %s' % (name, derives))
            out.append('impl PartialEqSpecImpl<%s> for %s { open spec fn obeys_eq_spec() -> bool { true } open spec fn eq_spec(&self, o: &%s) -> bool { *self == *o } }' % (name, name, name))
            out.append('impl PartialEq for %s { #[verifier::external_body] fn eq(&self, o: &%s) -> (r: bool) { unimplemented!() } }' % (name, name))
            out.append('impl Eq for %s {}' % name)
            info['assumptions'].append('derive(PartialEq) on %s is structural (a == b iff same variant and equal fields)' % name)
        for v, t in from_variants:
            for pat, rep in TYPE_MAP:
                t = re.sub(pat, rep, t)
            out.append('impl From<%s> for %s { #[verifier::external_body] fn from(e: %s) -> (r: Self) ensures r == %s::%s(e) { unimplemented!() } }'
                       % (t, name, t, name, v))
        if from_variants:
            info['assumptions'].append('thiserror #[from] on %s generates From impls wrapping the value in the variant' % name)
    info['types'].append({'kind': kind, 'name': name, 'source': relpath,
                          'sha256': hashlib.sha256(norm_ws(strip_comments(raw)).encode()).hexdigest()[:16],
                          'derives_seen': derives})
    return '\n'.join(out) + '\n'


def enum_variants(name, relpath):
    """[(variant, discriminant or None)] for a fieldless enum in the current source."""
    rf = RustFile(os.path.join(REPO, relpath))
    attrs, decl, _ = rf.find_type('enum', name)
    decl = strip_attrs(strip_comments(decl))
    body = decl[decl.index('{') + 1:decl.rindex('}')]
    res = []
    for part in body.split(','):
        part = part.strip()
        if not part:
            continue
        m = re.match(r'([A-Za-z_][A-Za-z0-9_]*)\s*(?:=\s*(\S+))?$', part)
        if not m:
            raise GenError('enum %s: variant with fields not supported in table generation: %s' % (name, part))
        d = m.group(2)
        res.append((m.group(1), int(d, 0) if d is not None else None))
    # fill implicit discriminants
    out = []
    nxt = 0
    for v, d in res:
        if d is None:
            d = nxt
        out.append((v, d))
        nxt = d + 1
    return out


# --------------------------------------------------------------------------
# function emission
# --------------------------------------------------------------------------
def locate_fn(contract):
    path = os.path.join(REPO, contract.src_path)
    if not os.path.exists(path):
        raise GenError('%s: source file %s missing (lost anchor)' % (contract.origin, contract.src_path))
    rf = RustFile(path)
    items = rf.find_fn(contract.owner, contract.name)
    if len(items) != 1:
        raise GenError('%s: %d definitions of %s in %s (lost anchor)' % (contract.origin, len(items), contract.key, contract.src_path))
    return items[0]


CASE_RE = re.compile(r'^(\s*)(.*?)\s*==>\s*(.*?),\s*//\s*\[case:([^\]]+)\]\s*$')


def split_cases(head):
    """Separate `guard ==> clause, // [case:LABEL]` lines from the rest of a contract head."""
    base, cases = [], []
    for line in head.split('\n'):
        m = CASE_RE.match(line)
        if m:
            cases.append((m.group(4), m.group(2).strip(), m.group(3).strip()))
        else:
            base.append(line)
    return '\n'.join(base), cases


def emit_fn_cases(contract, info, impl_header):
    """One copy of the REAL body per `[case:X]` clause, verified under `requires guard` with only that clause as
    postcondition (plus the function's own requires).  Sound case split of the conjunction of all case clauses;
    each copy lives in its own module so that Verus checks them in parallel."""
    base_head, cases = split_cases(contract.head)
    out = []
    for label, guard, clause in cases:
        c2 = Contract(contract.key, contract.src_path, contract.origin)
        # base head without its ensures block: keep signature + requires, replace ensures by the single clause
        sig = head_signature(base_head)
        req = re.search(r'^\s*requires\b(.*?)(?=^\s*(ensures|decreases)\b|\Z)', base_head[len(sig):], re.S | re.M)
        reqs = req.group(1).rstrip() if req else ''
        newname = contract.name + '__case_' + re.sub(r'[^A-Za-z0-9_]', '_', label)
        sig2 = re.sub(r'\bfn\s+' + re.escape(contract.name) + r'\b', 'fn ' + newname, sig, 1)
        c2.head = sig2 + '\n    requires\n        ' + guard + ', // [case_guard]' + ('\n' + reqs if reqs.strip() else '') + '\n    ensures\n        ' + clause + ', // [' + label + ']\n'
        c2.directives = contract.directives
        c2.case_of = contract.key
        text = emit_fn(c2, True, info, key_override=contract.key + '#' + label, skip_sigcheck_name=contract.name)
        out.append('pub mod case_%s { use super::*;\nbroadcast use {lenax::axiom_vec_len_bound_b, lenax::axiom_slice_len_bound_b};\n%s {\n%s}\n}\n' % (re.sub(r'[^A-Za-z0-9_]', '_', label), impl_header, text))
    return '\n'.join(out)


def emit_fn(contract, verified, info, key_override=None, skip_sigcheck_name=None):
    item = locate_fn(contract)
    real_sig = norm_sig(item.signature)
    head_for_sig = head_signature(contract.head)
    if skip_sigcheck_name:
        head_for_sig = re.sub(r'\bfn\s+[A-Za-z_][A-Za-z0-9_]*', 'fn ' + skip_sigcheck_name, head_for_sig, 1)
    want_sig = norm_sig(head_for_sig)
    if real_sig != want_sig:
        raise GenError('%s: signature of %s changed (lost anchor)\n  source  : %s\n  contract: %s'
                       % (contract.origin, contract.key, real_sig, want_sig))
    base_head, cases = split_cases(contract.head)
    head_text = contract.head if key_override else base_head
    head = desugar_impl_args(head_text.rstrip('\n'))
    rec = {'fn': key_override or contract.key, 'source': '%s:%d-%d' % (contract.src_path, item.line, item.end_line),
           'contract': contract.origin, 'verified_here': verified}
    if not verified:
        info['stubs'].append(rec)
        # @stubonly: clauses that are ASSUMED where the function is called but are not part of what its owner unit proves
        # (used for one thing: "the Ok/Err outcome of a pure function is a function of its input", named by an
        # uninterpreted spec function so that callers can state completeness relative to it)
        extra = ''.join(t for k, a, t in contract.directives if k == 'stubonly')
        if extra.strip():
            head = head.rstrip('\n') + '\n' + extra.rstrip('\n')
            info['assumptions'].append('stub-only clause on %s: %s' % (contract.key, ' '.join(extra.split())[:200]))
        return '#[verifier::external_body]\n' + head + '\n{ unimplemented!() }\n'
    body = strip_comments(item.body)
    rec['body_sha256'] = hashlib.sha256(norm_ws(body).encode()).hexdigest()[:16]
    applied = []
    body = rule_lexical(body, applied)
    body = rule_iter_mut_for_each(body, applied)
    body = rule_zip_map(body, applied)
    body = rule_iter_chains(body, applied)
    body = rule_defunctionalise(body, applied)
    body = rule_and_then_chain(body, applied)
    body = rule_matches_macro(body, applied)
    body = rule_for_zip_enumerate(body, applied)
    body = rule_for_enumerate(body, applied)
    body = rule_enumerate_find_filter_map(body, applied)
    body = rule_for_over_vec(body, applied)
    body = rule_for_range_with_continue(body, applied)
    try:
        body, nloops = splice(body, contract, applied)
    except GenError as e:
        if '@subst anchor' not in str(e) or STAMPING:
            raise
        # a statement that a @subst rewrite is anchored on was edited: the body can no longer be read by the verifier.
        # Only THIS function becomes undecided (its contract is assumed at call sites, as for any stub); the rest of the
        # unit is still checked.
        rec['rewrites'] = applied
        rec['degraded'] = [['body not read: %s' % str(e)[:300]]]
        rec['loops'] = 0
        rec['labels'] = re.findall(r'//\s*\[([^\]]+)\]', head)
        rec['clauses'] = 0
        rec['unread'] = str(e)[:300]
        info['functions'].append(rec)
        info.setdefault('unread', []).append('%s: body not read, function undecided: %s' % (rec['fn'], str(e)[:300]))
        return '#[verifier::external_body]\n' + head + '\n{ unimplemented!() }\n'
    rec['rewrites'] = applied
    rec['degraded'] = [a['dropped_annotations'] for a in applied if a.get('rule') == 'DEGRADED']
    rec['loops'] = nloops
    rec['labels'] = re.findall(r'//\s*\[([^\]]+)\]', head)
    rec['clauses'] = len(rec['labels'])
    info['functions'].append(rec)
    if info.get('variant') == 'vacuity':
        # reachability probe behind the precondition: an assertion that MUST fail is placed at the start of the body;
        # if it verifies, the requires clause is contradictory (every postcondition would hold vacuously)
        ob = body.index('{')
        body = body[:ob + 1] + '\n    proof { let vacuity_probe = 0int; assert(vacuity_probe == 1); }' + body[ob + 1:]
    # loop_isolation(false): loop bodies see the facts established before the loop about variables the loop does not
    # modify (so hoisting an expression out of a loop, a harmless edit, does not break the proof)
    keep_isolated = any(k == 'isolated' for k, a, t in contract.directives)
    complex_inv = keep_isolated or any(k == 'loop' and re.search(r'^\s*(invariant_except_break|ensures)\b', t, re.M) for k, a, t in contract.directives)
    iso = '#[verifier::loop_isolation(false)]\n' if nloops > 0 and LOOP_ISOLATION_OFF and not complex_inv else ''
    return '//@@BEGIN %s\n' % (key_override or contract.key) + iso + head + '\n' + body + '\n//@@END %s\n' % (key_override or contract.key)


def vacuous_head(head):
    """Vacuity variant: add `ensures false` as the FIRST postcondition."""
    m = re.search(r'^(\s*)ensures\b', head, re.M)
    if m:
        return head[:m.end()] + ' false, // [vacuity]\n' + head[m.end():]
    m = re.search(r'^\s*decreases\b', head, re.M)
    if m:
        return head[:m.start()] + '    ensures false, // [vacuity]\n' + head[m.start():]
    return head + '\n    ensures false, // [vacuity]'


# --------------------------------------------------------------------------
# template expansion
# --------------------------------------------------------------------------
# contracts whose text needs the signature / interpreter shims: never pulled into other units by //@stubrest
STAMPING = False
LOOP_ISOLATION_OFF = True
try:
    LOOPCOUNTS = json.load(open(os.path.join(VERIF, 'contracts', 'loopcounts.json')))
except Exception:
    LOOPCOUNTS = {}

STUBREST_SKIP = {'Transaction::_verify', 'TxIn::get_finalised_script_impl'}
STUBREST_SKIP_FILES = {'template.vc', 'interp_sig.vc', 'asm.vc', 'accessors.vc'}


def expand(unit, db=None, outdir=None, variant=None):
    """Generate work/<unit>.rs.  Returns (path, info)."""
    db = db if db is not None else load_contracts()
    outdir = outdir or os.path.join(OUT, 'work')
    os.makedirs(outdir, exist_ok=True)
    del CONST_RENAMES[:]
    info = {'unit': unit, 'variant': variant, 'functions': [], 'stubs': [], 'types': [], 'assumptions': [], 'includes': []}
    lines = []
    pending_rest = []

    def do_file(path, depth=0):
        if depth > 8:
            raise GenError('include depth')
        for raw in open(path):
            s = raw.strip()
            if s.startswith('//@include '):
                inc = os.path.join(VERIF, s.split(None, 1)[1])
                if variant == 'alloc' and inc.endswith('shims/alloc_free.rs'):
                    inc = inc.replace('alloc_free.rs', 'alloc_budget.rs')
                info['includes'].append(os.path.relpath(inc, VERIF))
                do_file(inc, depth + 1)
            elif s.startswith('//@struct ') or s.startswith('//@enum '):
                m = re.match(r'//@(struct|enum)\s+(\w+)\s+@\s+(\S+)\s*(.*)$', s)
                if not m:
                    raise GenError('bad directive: ' + s)
                opts = m.group(4).lower().replace(',', ' ').split()
                lines.append(extract_type(m.group(1), m.group(2), m.group(3), opts, info))
            elif s.startswith('//@enumtable '):
                # //@enumtable OpCodes @ src/script/op_codes.rs from_u8
                m = re.match(r'//@enumtable\s+(\w+)\s+@\s+(\S+)\s+(\w+)\s*$', s)
                lines.append(enum_table(m.group(1), m.group(2), m.group(3), info))
            elif s.startswith('//@fn ') or s.startswith('//@stub '):
                kind, key = s[3:].split(None, 1)
                key = key.strip()
                if key not in db:
                    raise GenError('unit %s: no contract for %s' % (unit, key))
                lines.append(emit_fn(db[key], kind == 'fn', info))
            elif s.startswith('//@constbytes '):
                m = re.match(r'//@constbytes\s+(\w+)\s+@\s+(\S+)\s*$', s)
                lines.append(const_bytes(m.group(1), m.group(2), info))
            elif s.startswith('//@wrapper '):
                # a public function that only delegates: it is verified against the CONTRACT TEXT of the function it
                # delegates to (requires / ensures copied verbatim, parameters matched by name), so a wrapper that swaps
                # or replaces an argument fails the same labelled clauses
                m = re.match(r'//@wrapper\s+(\S.*?)\s+@\s+(\S+)\s+=\s+(\S.*?)\s*$', s)
                wkey, wpath, ikey = m.group(1), m.group(2), m.group(3)
                if ikey not in db:
                    raise GenError('unit %s: no contract for %s (wrapper %s)' % (unit, ikey, wkey))
                ic = db[ikey]
                wc = Contract(wkey, wpath, ic.origin + ' (via //@wrapper)')
                witem = locate_fn(wc)
                wsig = witem.signature.strip()
                ihead_sig = head_signature(ic.head)
                rn = re.search(r'->\s*\(\s*(\w+)\s*:', ihead_sig)
                spec_part = ic.head[len(ihead_sig):]
                if '->' in wsig:
                    a, b = wsig.rsplit('->', 1)
                    wsig2 = a.rstrip() + ' -> (%s: %s)' % (rn.group(1) if rn else 'r', b.strip())
                else:
                    wsig2 = wsig
                wc.head = wsig2 + '\n' + spec_part.lstrip('\n')
                pw = re.findall(r'(\w+)\s*:', wsig.split('(', 1)[1].rsplit(')', 1)[0])
                pi = re.findall(r'(\w+)\s*:', ihead_sig.split('(', 1)[1].rsplit(')', 1)[0].split('->')[0])
                if sorted(pw) != sorted(pi):
                    raise GenError('unit %s: wrapper %s and %s name their parameters differently (%s / %s): the contract text cannot be transferred (lost anchor)' % (unit, wkey, ikey, pw, pi))
                lines.append(emit_fn(wc, True, info))
                info['functions'][-1]['wrapper_of'] = ikey
            elif s.startswith('//@const '):
                # a scalar constant of the source, copied with its defining expression (never hand-written in a unit)
                m = re.match(r'//@const\s+(\w+)\s+@\s+(\S+)\s*$', s)
                cname, rel = m.group(1), m.group(2)
                csrc = strip_comments(open(os.path.join(REPO, rel)).read())
                mm = re.search(r'(?:pub(?:\([a-z]+\))?\s+)?const\s+' + re.escape(cname) + r'\s*:\s*([^=;]+?)\s*=\s*([^;]+);', csrc)
                if not mm:
                    raise GenError('unit %s: constant %s not found in %s (lost anchor)' % (unit, cname, rel))
                lines.append('pub const %s: %s = %s;' % (cname, mm.group(1).strip(), mm.group(2).strip()))
                info['types'].append({'kind': 'const', 'name': cname, 'source': rel, 'sha256': hashlib.sha256(mm.group(0).encode()).hexdigest()[:16], 'derives_seen': []})
            elif s.startswith('//@prooffn '):
                # a proof function of /verif/spec that is an OBLIGATION on the extracted source (e.g. an independent
                # constant table the source enum must agree with): wrapped in markers and registered like a function
                m = re.match(r'//@prooffn\s+(\S+)\s+(\S+)\s+@\s+(\S+)\s*$', s)
                key, specfile, srcpath = m.group(1), m.group(2), m.group(3)
                text = open(os.path.join(VERIF, specfile)).read()
                labels = re.findall(r'//\s*\[([^\]]+)\]', text)
                info['functions'].append({'fn': key, 'source': srcpath, 'contract': specfile, 'verified_here': True, 'prooffn': True,
                                          'body_sha256': hashlib.sha256(text.encode()).hexdigest()[:16], 'rewrites': [], 'degraded': [],
                                          'loops': 0, 'labels': labels, 'clauses': len(labels)})
                lines.append('//@@BEGIN %s\n%s\n//@@END %s' % (key, text.rstrip('\n'), key))
            elif s.startswith('//@onlyonce '):
                # a mechanical source fact an assumed contract relies on: the text occurs exactly once under the directory
                m = re.match(r'//@onlyonce\s+`(.*)`\s+in\s+(\S+)\s*$', s)
                needle, sub = m.group(1), m.group(2)
                cnt = 0
                for root, _, files in os.walk(os.path.join(REPO, sub)):
                    for fn_ in files:
                        if fn_.endswith('.rs'):
                            cnt += strip_comments(open(os.path.join(root, fn_)).read()).count(needle)
                if cnt != 1:
                    raise GenError('unit %s: `%s` occurs %d times under %s (an assumed contract relies on exactly one occurrence)' % (unit, needle, cnt, sub))
                info['assumptions'].append('source fact checked on every run: `%s` occurs exactly once under %s' % (needle, sub))
                lines.append('')
            elif s.startswith('//@stubrest '):
                owner = s.split(None, 1)[1].strip()
                pending_rest.append((len(lines), owner))
                lines.append('')
            elif s.startswith('//@fncases '):
                m = re.match(r'//@fncases\s+(\S.*?)\s+in\s+(.+)$', s)
                key, impl_header = m.group(1).strip(), m.group(2).strip()
                if key not in db:
                    raise GenError('unit %s: no contract for %s' % (unit, key))
                lines.append(emit_fn_cases(db[key], info, impl_header))
            elif s.startswith('//@allmut '):
                m = re.match(r'//@allmut\s+(\w+)\s+@\s+(.*)$', s)
                check_all_mut(m.group(1), m.group(2).split(), info)
            elif s.startswith('//@nofieldwrites '):
                m = re.match(r'//@nofieldwrites\s+(.*)$', s)
                pass
            else:
                lines.append(raw.rstrip('\n'))

    do_file(os.path.join(VERIF, 'units', unit + '.rs'))
    # //@stubrest Owner: every other contracted function of Owner, as an assumed stub (so that code calling it
    # still type-checks and is verified against the callee's contract)
    emitted = set(f['fn'] for f in info['functions']) | set(f['fn'] for f in info['stubs'])
    for pos, owner in pending_rest:
        chunk = []
        for key in sorted(db):
            c = db[key]
            if c.owner == owner and key not in emitted and key not in STUBREST_SKIP and c.origin.split(':')[0] not in STUBREST_SKIP_FILES:
                try:
                    chunk.append(emit_fn(c, False, info))
                    emitted.add(key)
                except GenError:
                    raise
        lines[pos] = '\n'.join(chunk)
    text = '\n'.join(lines) + '\n'
    out = os.path.join(outdir, unit + ('__vac' if variant == 'vacuity' else '__alloc' if variant == 'alloc' else '') + '.rs')
    with open(out, 'w') as f:
        f.write(text)
    info['path'] = out
    info['ranges'] = marker_ranges(text)
    info['text_lines'] = text.split('\n')
    return out, info


def marker_ranges(text):
    res = []
    start = {}
    for i, line in enumerate(text.split('\n'), 1):
        if line.startswith('//@@BEGIN '):
            start[line[10:].strip()] = i
        elif line.startswith('//@@END '):
            k = line[8:].strip()
            res.append((start[k], i, k))
    return res


def check_all_mut(typ, relpaths, info):
    """C04 guard: every `&mut self` method of `typ` found in the source must be named by the unit."""
    found = []
    for rp in relpaths:
        rf = RustFile(os.path.join(REPO, rp))
        for name, sig, line in rf.all_fns_in_impl(typ):
            if re.search(r'\(\s*&\s*mut\s+self\b', sig):
                found.append((name, rp, line))
    info.setdefault('mut_methods', []).extend(found)


def const_bytes(name, relpath, info):
    """`const NAME: &[u8] = b"...";` -> assumed-accessor fn NAME_v() with the literal's bytes; uses are renamed (R20)."""
    src = open(os.path.join(REPO, relpath)).read()
    m = re.search(r'\bconst\s+' + re.escape(name) + r'\s*:\s*&(?:\'static\s+)?\[u8\]\s*=\s*b"((?:[^"\\]|\\.)*)"\s*;', src)
    if not m:
        raise GenError('const %s not found as a byte-string constant in %s (lost anchor)' % (name, relpath))
    bs = _bytes_of_literal(m.group(1))
    if name not in CONST_RENAMES:
        CONST_RENAMES.append(name)
    info['types'].append({'kind': 'const', 'name': name, 'source': relpath, 'bytes': len(bs)})
    return ('#[verifier::external_body] pub fn %s_v() -> (r: &\'static [u8]) ensures r@ == seq![%s] { unimplemented!() }\n'
            % (name, ', '.join('0x%02xu8' % b for b in bs)))


def enum_table(name, relpath, fname, info):
    """Table-driven assumed behaviour of num-derive FromPrimitive / ToPrimitive, generated from the enum
    definition in the CURRENT source (discriminant <-> variant)."""
    vs = enum_variants(name, relpath)
    if any(d < 0 or d > 255 for _, d in vs):
        raise GenError('enum %s: discriminant outside u8 - table generation not supported' % name)
    info['assumptions'].append('num-derive FromPrimitive/ToPrimitive on %s maps discriminant <-> variant as listed in the enum definition (table generated from current source, %d variants)' % (name, len(vs)))
    arms = ' || '.join('b == %d' % d for _, d in vs)
    return ('impl %s {\n'
            '    #[verifier::opaque] pub open spec fn valid_disc_from_u8(b: int) -> bool { %s }\n'
            '    #[verifier::external_body] pub fn from_u8(b: u8) -> (r: Option<%s>) ensures match r { Some(c) => c as u8 == b && %s::valid_disc_from_u8(b as int), None => !%s::valid_disc_from_u8(b as int) } { unimplemented!() }\n'
            '    #[verifier::external_body] pub fn to_u8(&self) -> (r: Option<u8>) ensures r == Some(*self as u8) { unimplemented!() }\n'
            '    #[verifier::external_body] pub fn to_u32(&self) -> (r: Option<u32>) ensures r == Some((*self as u8) as u32) { unimplemented!() }\n'
            '    #[verifier::external_body] pub fn ge(&self, other: &Self) -> (r: bool) ensures r == ((*self as u8) >= (*other as u8)) { unimplemented!() }\n'
            '    #[verifier::external_body] pub fn to_i32(&self) -> (r: Option<i32>) ensures r == Some((*self as u8) as i32) { unimplemented!() }\n'
            '}\n'
            'impl FromPrimitive for %s { open spec fn fp_valid(b: u8) -> bool { %s::valid_disc_from_u8(b as int) } open spec fn fp_disc(&self) -> u8 { *self as u8 }\n'
            '    #[verifier::external_body] fn from_u8(b: u8) -> (r: Option<%s>) { unimplemented!() } }\n'
            % (name, arms, name, name, name, name, name, name))
