"""Runs Verus on generated units, classifies diagnostics, writes evidence / replay files."""
import fnmatch
import hashlib
import json
import os
import re
import subprocess
import time
from concurrent.futures import ThreadPoolExecutor

from . import gen

VERIF = gen.VERIF
WORK = os.path.join(gen.OUT, 'work')

FAILED_PATTERNS = [
    (r'unable to prove post-condition of closure', 'closure_postcondition'),
    (r'postcondition not satisfied', 'postcondition'),
    (r'precondition not satisfied', 'precondition'),
    (r'invariant not satisfied', 'invariant'),
    (r'assertion failed', 'assertion'),
    (r'possible arithmetic underflow/overflow', 'overflow'),
    (r'possible division by zero', 'div0'),
    (r'possible bit shift underflow/overflow', 'shift'),
    (r'decreases not satisfied', 'decreases'),
    (r'could not prove termination', 'decreases'),
    (r'unreachable|unreached', 'unreachable'),
    (r'index out of bounds|possible out of bounds', 'index'),
    (r'constructed value may fail to meet its declared type invariant', 'type_invariant'),
    (r'failed to show arithmetic', 'overflow'),
    (r'possible cast overflow|cast.*out of range', 'overflow'),
]
UNDECIDED_PATTERNS = [r'Resource limit', r'rlimit', r'not supported', r'does not yet support', r'timed out', r'unsupported']
IGNORED = [r'^aborting due to', r'^\d+ warnings? emitted', r'^For more information']


class UnitResult:
    def __init__(self, unit):
        self.unit = unit
        self.info = None
        self.failed = []       # list of dict(obligation, kind, fn, label, line, text, rendered)
        self.undecided = []    # list of str
        self.verified = 0
        self.errors = 0
        self.smt_ms = 0
        self.total_ms = 0
        self.fn_success = {}   # contract key -> bool (no failed obligation inside its range)
        self.cmd = ''
        self.raw_err = ''
        self.breakdown = []


def run_unit(unit, variant=None, rlimit=None, seed=None, db=None):
    res = UnitResult(unit)
    base = unit
    if '@' in unit:
        base, variant = unit.split('@', 1)
    try:
        path, info = gen.expand(base, db=db, variant=variant)
    except (gen.GenError, gen.ScanError) as e:
        res.undecided.append('generator: %s' % e)
        return res
    res.info = info
    for msg in info.get('unread', []):
        res.undecided.append(msg)
    cmd = ['verus', path, '--output-json', '--time', '--error-format=json', '--multiple-errors', '200']
    if rlimit:
        cmd += ['--rlimit', str(rlimit)]
    if seed is not None:
        cmd += ['--smt-option', 'smt.random_seed=%d' % seed]
    res.cmd = ' '.join(cmd)
    t0 = time.time()
    p = subprocess.run(cmd, cwd=WORK, stdout=subprocess.PIPE, stderr=subprocess.PIPE, text=True)
    res.wall = time.time() - t0
    res.raw_err = p.stderr
    try:
        out = json.loads(p.stdout)
        vr = out.get('verification-results', {})
        res.verified = vr.get('verified', 0)
        res.errors = vr.get('errors', 0)
        tm = out.get('times-ms', {})
        res.total_ms = tm.get('total', 0)
        smt = tm.get('smt', {})
        res.smt_ms = smt.get('smt-run', 0) + smt.get('smt-init', 0)
        for mod in smt.get('smt-run-module-times', []):
            res.breakdown += mod.get('function-breakdown', [])
        if vr.get('encountered-vir-error'):
            res.undecided.append('verus reported a VIR error (unsupported construct)')
    except Exception:
        if not p.stderr.strip():
            res.undecided.append('verus produced no JSON output (exit %d)' % p.returncode)
    classify(res, p.stderr)
    if p.returncode != 0 and not res.failed and not res.undecided:
        res.undecided.append('verus exit %d without a recognised diagnostic' % p.returncode)
    failed_fns = set(f['fn'] for f in res.failed)
    for rec in info['functions']:
        res.fn_success[rec['fn']] = rec['fn'] not in failed_fns
    return res


def _fn_at(info, line):
    for a, b, k in info['ranges']:
        if a <= line <= b:
            return k
    return None


def _label_of(info, line_start, line_end):
    for ln in range(line_start, line_end + 1):
        if 1 <= ln <= len(info['text_lines']):
            m = re.search(r'//\s*\[([^\]]+)\]', info['text_lines'][ln - 1])
            if m:
                return m.group(1)
    return None


def _call_site(sp):
    """A span inside a macro definition (our shadowed vec!/format!) is replaced by its invocation site."""
    seen = 0
    while sp.get('expansion') and sp['expansion'].get('span') and seen < 5:
        outer = dict(sp['expansion']['span'])
        outer['is_primary'] = sp.get('is_primary')
        outer['label'] = sp.get('label')
        sp = outer
        seen += 1
    return sp


def classify(res, stderr):
    info = res.info
    for line in stderr.splitlines():
        line = line.strip()
        if not line.startswith('{'):
            if line and not any(re.search(p, line) for p in IGNORED):
                # non-JSON stderr noise (e.g. rustc ICE) => undecided
                if 'error' in line.lower() or 'panicked' in line.lower():
                    res.undecided.append('stderr: ' + line[:300])
            continue
        try:
            d = json.loads(line)
        except Exception:
            continue
        if d.get('level') not in ('error',):
            continue
        msg = d.get('message', '')
        if any(re.search(p, msg) for p in IGNORED):
            continue
        if d.get('code'):
            res.undecided.append('rustc %s: %s' % (d['code'].get('code'), msg))
            continue
        if any(re.search(p, msg) for p in UNDECIDED_PATTERNS):
            sp = [s for s in d.get('spans', []) if s.get('is_primary')]
            where = _fn_at(info, sp[0]['line_start']) if sp else None
            res.undecided.append('%s (%s)' % (msg, where))
            continue
        kind = None
        for pat, k in FAILED_PATTERNS:
            if re.search(pat, msg):
                kind = k
                break
        if kind is None:
            res.undecided.append('unrecognised diagnostic: %s' % msg)
            continue
        spans = [_call_site(sp) for sp in d.get('spans', [])]
        prim = [s for s in spans if s.get('is_primary')] or spans
        sec = [s for s in spans if not s.get('is_primary')]
        p0 = prim[0]
        # which function is being verified: the span that lies inside a marked range
        fn = None
        for s in prim + sec:
            fn = _fn_at(info, s['line_start'])
            if fn:
                break
        label = None
        if kind == 'postcondition':
            label = _label_of(info, p0['line_start'], p0['line_end'])
            site = p0
        elif kind == 'precondition':
            # primary = call site, secondary = failed clause of the callee
            site = p0
            for s in sec:
                l2 = _label_of(info, s['line_start'], s['line_end'])
                if l2:
                    label = 'call:' + l2
                    break
        else:
            site = p0
            label = _label_of(info, p0['line_start'], p0['line_end'])
        text = ' '.join(t['text'].strip() for t in site.get('text', []))[:200]
        norm = re.sub(r'//.*$', '', text)
        norm = re.sub(r'\s+', ' ', norm).strip()
        if label and kind != 'precondition':
            oid = '%s::%s::%s' % (res.unit, fn, label)
        elif kind == 'precondition':
            oid = '%s::%s::%s@%s' % (res.unit, fn, label or 'call', norm[:80])
        else:
            oid = '%s::%s::%s@%s' % (res.unit, fn, label or kind, norm[:80])
        if fn is None:
            # failure inside spec/shim/lemma text of the unit itself: framework problem, not the code
            res.undecided.append('failed obligation outside any extracted function (framework proof broken): %s @%d %s'
                                 % (msg, p0['line_start'], norm[:80]))
            continue
        deg = [f for f in info['functions'] if f['fn'] == fn and f.get('degraded')]
        if deg:
            # proof aids (loop annotations / text-anchored hints) of this function were dropped because the code they
            # were attached to changed: a failure may be due to the missing aid, so it is never reported as a violation
            res.undecided.append('%s: %s failed after proof annotations were dropped (%s): not decidable without new annotations'
                                 % (fn, oid, deg[0]['degraded']))
            continue
        res.failed.append({'obligation': oid, 'kind': kind, 'fn': fn, 'label': label, 'gen_line': site['line_start'],
                           'text': norm, 'message': msg, 'rendered': d.get('rendered', '')})


def run_units(units, variant=None, rlimit=None, seed=None, jobs=8):
    db = gen.load_contracts()
    with ThreadPoolExecutor(max_workers=jobs) as ex:
        futs = {u: ex.submit(run_unit, u, variant, rlimit, seed, db) for u in units}
        return {u: f.result() for u, f in futs.items()}


def scan_assumptions(info):
    """Mechanical scan of the generated text for everything that is assumed rather than proved."""
    text = '\n'.join(info['text_lines'])
    out = {'external_body': [], 'assume_specification': [], 'uninterp': [], 'axioms': [], 'forbidden': []}
    lines = info['text_lines']
    for i, l in enumerate(lines):
        if '#[verifier::external_body]' in l:
            # name: next 'fn name' on this or following lines
            j = i
            name = None
            while j < min(i + 4, len(lines)):
                m = re.search(r'\bfn\s+([A-Za-z_][A-Za-z0-9_]*)', lines[j])
                if m:
                    name = m.group(1)
                    break
                j += 1
            out['external_body'].append(name or '?')
        m = re.search(r'assume_specification\s*(<[^>]*>)?\s*\[([^\]]+\]?[^\]]*)\]', l)
        if m:
            out['assume_specification'].append(re.sub(r'\s+', '', m.group(2)))
        m = re.search(r'\buninterp\s+spec\s+fn\s+([A-Za-z_][A-Za-z0-9_]*)', l)
        if m:
            out['uninterp'].append(m.group(1))
        m = re.search(r'\b(?:broadcast\s+)?(?:proof\s+fn|axiom\s+fn)\s+(axiom_[A-Za-z0-9_]*)', l)
        if m:
            out['axioms'].append(m.group(1))
        if re.search(r'\b(assume|admit)\s*\(', re.sub(r'//.*$', '', l)) and 'assume_specification' not in l:
            out['forbidden'].append('%d: %s' % (i + 1, l.strip()[:100]))
    return out
