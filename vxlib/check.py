"""Property-level check: units -> obligations -> known findings / violations -> evidence."""
import fnmatch
import json
import os
import re
import sys
import time

from . import proberun
from . import gen, runner, kanirun
from .props import PROPS

VERIF = gen.VERIF
KNOWN = os.path.join(VERIF, 'known-findings.json')


def load_known():
    if not os.path.exists(KNOWN):
        return {'findings': [], 'fixed': []}
    return json.load(open(KNOWN))


def fn_in_scope(globs, key):
    return any(fnmatch.fnmatchcase(key, g) for g in globs)


def sanitize(s):
    return re.sub(r'[^A-Za-z0-9_.-]+', '_', s)[:150]


def check(pid, tier='quick', seed=0):
    t0 = time.time()
    prop = PROPS[pid]
    units = list(prop['units'].keys())
    results = runner.run_units(units, rlimit=prop.get('rlimit', 40))
    known = load_known()
    known_for = [k for k in known.get('findings', []) if k['property'] == pid]
    undecided = []
    failed = []          # in-scope failed obligations
    fn_records = []
    stubs = []
    obligations = 0
    discharged = 0
    clause_count = 0
    smt_ms = 0
    assumptions = []
    trusted = set()
    rewrites = 0
    samples = []
    cmds = []
    kinds = prop.get('only_kinds')
    lab_re = re.compile(prop['only_labels']) if prop.get('only_labels') else None
    def relevant(x):
        if kinds is None and lab_re is None:
            return True
        if x.get('label') and lab_re is not None and lab_re.search(x['label']):
            return True
        return kinds is not None and x['kind'] in kinds and not (x['kind'] == 'postcondition')
    for u in units:
        r = results[u]
        for msg in r.undecided:
            undecided.append('%s: %s' % (u, msg))
        if r.info is None:
            continue
        globs = prop['units'][u]
        cmds.append(r.cmd)
        smt_ms += r.smt_ms
        scan = runner.scan_assumptions(r.info)
        if scan['forbidden']:
            undecided.append('%s: assume()/admit() present in generated text: %s' % (u, scan['forbidden'][:3]))
        # a public pass-through wrapper is in scope whenever the function it delegates to is
        in_scope = [f for f in r.info['functions'] if fn_in_scope(globs, f['fn']) or (f.get('wrapper_of') and fn_in_scope(globs, f['wrapper_of']))]
        if not in_scope:
            undecided.append('%s: no function of this unit is in scope of %s (vacuous check)' % (u, pid))
        for f in in_scope:
            fails = [x for x in r.failed if x['fn'] == f['fn'] and relevant(x)]
            # obligations of a function: its labelled contract clauses + its body safety/termination query
            nclauses = f['clauses'] if lab_re is None and kinds is None else len([l for l in f.get('labels', []) if lab_re is not None and lab_re.search(l)])
            n = nclauses + 1
            obligations += n
            nfail = len(set(x['obligation'] for x in fails))
            discharged += max(0, n - nfail)
            clause_count += nclauses
            rewrites += len(f['rewrites'])
            fn_records.append({'fn': f['fn'], 'unit': u, 'source': f['source'], 'body_sha256': f['body_sha256'],
                               'clauses': f['clauses'], 'loops': f['loops'], 'rewrites': f['rewrites'],
                               'failed': sorted(set(x['obligation'] for x in fails))})
            failed += fails
        for s in r.info['stubs']:
            stubs.append('%s (contract assumed in unit %s; proved in its owning unit)' % (s['fn'], u))
        for a in r.info['assumptions']:
            assumptions.append(a)
        for name in sorted(set(scan['external_body'])):
            trusted.add('external_body: ' + name)
        for name in sorted(set(scan['assume_specification'])):
            trusted.add('assume_specification: ' + name)
        for name in sorted(set(scan['uninterp'])):
            trusted.add('uninterpreted: ' + name)
        for name in sorted(set(scan['axioms'])):
            trusted.add('axiom: ' + name)
        if r.verified + r.errors == 0 and not r.undecided:
            undecided.append('%s: verus generated zero obligations' % u)
    # ---- Kani leaves (real crate, loop-free / fully unwound harnesses)
    kani_cfg = [k for k in prop.get('kani', []) if tier == 'thorough' or k.get('quick', True)]
    kani_res = {}
    kani_cmd = ''
    kani_records = []
    if kani_cfg:
        kani_res, kani_cmd = kanirun.run_harnesses([k['harness'] for k in kani_cfg], unwind=prop.get('kani_unwind', 12))
        cmds.append(kani_cmd)
        for k in kani_cfg:
            kr = kani_res[k['harness']]
            rec = {'harness': k['harness'], 'status': kr['status'], 'cbmc_checks': kr['checks'], 'seconds': kr['seconds'],
                   'bounded': bool(k.get('bound')), 'bound': k.get('bound', 'none: loop-free / fully unwound over the full input domain'),
                   'validates': k.get('validates', ''), 'covers': kr['covers']}
            kani_records.append(rec)
            if k.get('bound'):
                pass  # bounded stand-ins are reported but never counted as proved obligations
            else:
                obligations += 1
            if kr['status'] == 'ok':
                if not k.get('bound'):
                    discharged += 1
                if kr['covers'] and kr['covers'][0] != kr['covers'][1]:
                    undecided.append('kani %s: cover property unreachable (vacuous harness)' % k['harness'])
            elif kr['status'] == 'failed':
                failed.append({'obligation': 'kani::%s::%s' % (k['harness'], '; '.join(kr['failed_desc'])[:120]), 'kind': 'kani', 'fn': k['harness'],
                               'label': None, 'text': '; '.join(kr['failed_desc']), 'message': 'Kani verification failed', 'rendered': kr['raw'],
                               'engine': 'kani'})
            else:
                undecided.append('kani %s: %s' % (k['harness'], '; '.join(kr['failed_desc'])[:300]))
    # ---- thorough tier: (a) vacuity pass, (b) a second solver seed
    thorough = {}
    if tier == 'thorough':
        base_units = [u for u in units if '@' not in u]
        vres = runner.run_units(base_units, variant='vacuity', rlimit=prop.get('rlimit', 40))
        vac_checked = 0
        for u in base_units:
            r = vres[u]
            if r.info is None:
                undecided.append('%s (vacuity pass): %s' % (u, '; '.join(r.undecided)[:200]))
                continue
            globs = prop['units'][u]
            vfail = set(x['fn'] for x in r.failed if x['kind'] == 'assertion' and 'vacuity_probe' in (x.get('text') or ''))
            hard = set()
            for msg in r.undecided:
                mm = re.search(r'\(([^()]*)\)\s*$', msg)
                if 'esource limit' in msg or 'rlimit' in msg:
                    hard.add(msg)
            for f in r.info['functions']:
                if not fn_in_scope(globs, f['fn']) or f.get('prooffn'):
                    continue   # (a proof function of /verif/spec has no precondition and no body to probe)
                vac_checked += 1
                if f['fn'] not in vfail and not hard:
                    undecided.append('%s: %s verifies an assertion that must fail at the start of its body: contradictory precondition, vacuous contract' % (u, f['fn']))
        # (b) second seed: an obligation that fails under one solver seed only is unstable, not violated
        s2 = (seed or 0) + 1
        sres = runner.run_units(units, rlimit=prop.get('rlimit', 40), seed=s2)
        base_fail = set(x['obligation'] for u in units for x in results[u].failed)
        unstable = 0
        for u in units:
            r = sres[u]
            for x in r.failed:
                if r.info and relevant(x) and x['obligation'] not in base_fail and any(f['fn'] == x['fn'] and (fn_in_scope(prop['units'][u], f['fn']) or (f.get('wrapper_of') and fn_in_scope(prop['units'][u], f['wrapper_of']))) for f in r.info['functions']):
                    unstable += 1
                    undecided.append('%s: %s fails only with solver seed %d (unstable proof, not a violation)' % (u, x['obligation'], s2))
            for msg in r.undecided:
                undecided.append('%s (seed %d): %s' % (u, s2, msg))
        thorough = {'vacuity_functions_checked': vac_checked, 'second_seed': s2, 'unstable_obligations': unstable}
    # ---- classify failures against the known-findings file
    lines = []
    violations = []
    seen = set()
    known_hits = 0
    for f in failed:
        if f['obligation'] in seen:
            continue
        seen.add(f['obligation'])
        kf = [k for k in known_for if k['obligation'] == f['obligation']]
        if kf:
            lines.append('KNOWN-FINDING: property=%s %s %s' % (pid, f['obligation'], kf[0].get('what', '')))
            known_hits += 1
        else:
            violations.append(f)
    # known findings that no longer fail are fine (nothing is printed for them)
    rc = 0
    os.makedirs(os.path.join(gen.OUT, 'replays', pid), exist_ok=True)
    for v in violations:
        rp = os.path.join(gen.OUT, 'replays', pid, sanitize(v['obligation']) + '.json')
        src = next((x['source'] for x in fn_records if x['fn'] == v['fn']), None)
        cx = None
        cx_note = None
        if v.get('engine') == 'kani':
            # Kani executes the REAL crate symbolically: its concrete playback gives the failing input of the real code
            cx = kanirun.counterexample(v['fn'], unwind=prop.get('kani_unwind', 12))
            cx_note = 'failing input of the real code as found by CBMC (Kani concrete playback: the byte vectors are the values of the kani::any() calls of harness %s in /verif/kani/src/lib.rs, in order)' % v['fn']
        else:
            # Verus gives no counterexample; where a replay probe (a concrete input against the real library) is mapped to
            # this obligation and FAILS on the tree being checked, it is the failing input
            fp = proberun.failing_probe(v['obligation'])
            if fp:
                cx = 'probe %s (source: /verif/probe/src/main.rs, run as `bsv-probe %s` against the real library):\n%s' % (fp[0], fp[0], fp[1])
                cx_note = 'the failing input is the one hard-wired in replay probe %s; it was RUN against the real code of the tree being checked and the property failed on it' % fp[0]
        with open(rp, 'w') as fh:
            json.dump({'property': pid, 'failed_obligation': v['obligation'], 'kind': v['kind'], 'function': v['fn'],
                       'source': src, 'clause_or_site': v['text'], 'verifier': v.get('engine', 'verus'), 'verifier_message': v['message'],
                       'verifier_output': v['rendered'], 'counterexample': cx,
                       'note': cx_note if cx else 'the verifier gives no counterexample; no-failing-input-found'}, fh, indent=1)
        lines.append('VIOLATION property=%s replay=%s obligation=%s%s' % (pid, rp, v['obligation'], '' if cx else ' no-failing-input-found'))
        rc = 1
    if undecided and rc == 0:
        rc = 2
    for ob in sorted(seen)[:3]:
        samples.append({'failed_obligation': ob})
    for fr in fn_records[:4]:
        samples.append({'function': fr['fn'], 'source': fr['source'], 'clauses': fr['clauses']})
    ev = {
        'property_id': pid, 'tier': tier, 'seed': seed, 'thorough_passes': thorough, 'level': 'proof',
        'coverage': {
            'obligations': obligations - known_hits, 'discharged': discharged,
            'obligations_failing_as_known_findings': known_hits,
            'checker_cmd': ' ; '.join(cmds) if cmds else 'verus',
            'trusted_base': sorted(trusted),
            'samples': samples,
            'functions_under_contract': fn_records,
            'contract_clauses': clause_count,
            'stubbed_callees': sorted(set(stubs)),
            'engines': {'verus': {'units': units, 'functions_verified': sum(r.verified for r in results.values()),
                                  'smt_seconds': round(smt_ms / 1000.0, 3)},
                        'kani': {'harnesses': kani_records, 'cbmc_seconds': round(sum(k['seconds'] for k in kani_records), 2)}},
            'extraction': {'from': gen.REPO, 'rewrites_applied': rewrites,
                           'dropped': 'comments, attributes, use items; struct fields widened to pub'},
            'undecided': undecided,
            'known_findings_matched': [l for l in lines if l.startswith('KNOWN-FINDING')],
        },
        'assumptions': sorted(set(assumptions)) + prop.get('assumptions', []),
        'wall_s': round(time.time() - t0, 2),
        'violations': len(violations),
    }
    os.makedirs(os.path.join(gen.OUT, 'evidence'), exist_ok=True)
    with open(os.path.join(gen.OUT, 'evidence', pid + '.json'), 'w') as fh:
        json.dump(ev, fh, indent=1)
    for l in lines:
        print(l)
    for u in undecided:
        print('UNDECIDED:', u)
    print('%s tier=%s functions=%d obligations=%d discharged=%d violations=%d undecided=%d smt=%.2fs wall=%.1fs'
          % (pid, tier, len(fn_records), obligations, discharged, len(violations), len(undecided), smt_ms / 1000.0, time.time() - t0))
    return rc
