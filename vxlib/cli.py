import sys, json
from . import gen

def main(argv):
    if argv[0] == 'gen':
        try:
            path, info = gen.expand(argv[1])
        except gen.GenError as e:
            print('UNDECIDED (generator):', e)
            return 2
        print(path)
        return 0
    print('usage: vx gen <unit>')
    return 2
