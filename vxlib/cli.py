import sys, json, os
from . import gen


def main(argv):
    if not argv:
        print('usage: vx gen <unit> | check <Cxx> [--tier quick|thorough] | replay <replay.json> | manifest | setup')
        return 2
    if argv[0] == 'gen':
        try:
            path, info = gen.expand(argv[1], variant=(argv[2] if len(argv) > 2 else None))
        except (gen.GenError, gen.ScanError) as e:
            print('UNDECIDED (generator):', e)
            return 2
        print(path)
        return 0
    if argv[0] == 'check':
        from . import check
        pid = argv[1]
        tier = os.environ.get('VERIF_TIER', 'quick')
        if '--tier' in argv:
            tier = argv[argv.index('--tier') + 1]
        seed = int(os.environ.get('VERIF_SEED', '0') or 0)
        return check.check(pid, tier, seed)
    if argv[0] == 'stamp':
        # records, for every function under contract, how many loops its (rewritten) body has on the CURRENT tree
        gen.STAMPING = True
        counts = {}
        for f in sorted(os.listdir(os.path.join(gen.VERIF, 'units'))):
            if f.endswith('.rs'):
                _, info = gen.expand(f[:-3])
                for rec in info['functions']:
                    counts[rec['fn'].split('#')[0]] = rec['loops']
        json.dump(counts, open(os.path.join(gen.VERIF, 'contracts', 'loopcounts.json'), 'w'), indent=0, sort_keys=True)
        print('%d functions stamped' % len(counts))
        return 0
    if argv[0] == 'manifest':
        from . import manifest
        manifest.build()
        print('MANIFEST.json written')
        return 0
    if argv[0] == 'replay':
        # re-decides ONE recorded failed obligation against the current tree: regenerates the unit from /repo, re-runs the
        # verifier (or the Kani harness, printing its concrete counterexample) and reports whether it still fails
        from . import runner, kanirun
        rec = json.load(open(argv[1]))
        ob = rec['failed_obligation']
        print('property=%s obligation=%s' % (rec['property'], ob))
        if rec.get('verifier') == 'kani':
            name = rec['function']
            res, cmd = kanirun.run_harnesses([name])
            st = res[name]['status']
            print('kani harness %s: %s' % (name, st))
            if st == 'failed':
                cx = kanirun.counterexample(name)
                print('failing input of the real code (Kani concrete playback):')
                print(cx or '(none produced)')
                print('REPLAY: obligation still fails on the current tree')
                return 1
            print('REPLAY: obligation %s on the current tree' % ('holds' if st == 'ok' else 'is undecided'))
            return 0 if st == 'ok' else 2
        unit = ob.split('::', 1)[0]
        r = runner.run_unit(unit, rlimit=40)
        if r.info is None or r.undecided:
            for m in r.undecided[:5]:
                print('UNDECIDED:', m[:300])
        hit = [x for x in r.failed if x['obligation'] == ob]
        if hit:
            print(hit[0]['rendered'][:3000])
            print('REPLAY: obligation still fails on the current tree (the verifier gives no counterexample; no-failing-input-found)')
            return 1
        if r.info is None or r.undecided:
            return 2
        print('REPLAY: obligation is discharged on the current tree')
        return 0
    if argv[0] == 'setup':
        import shutil
        for d in ('work', 'evidence', 'replays'):
            os.makedirs(os.path.join(gen.VERIF, d), exist_ok=True)
        ok = shutil.which('verus') is not None
        print('verus:', shutil.which('verus'))
        return 0 if ok else 2
    print('unknown command', argv[0])
    return 2
