import sys, json, os
from . import gen


def main(argv):
    if not argv:
        print('usage: vx gen <unit> | check <Cxx> [--tier quick|thorough] | manifest')
        return 2
    if argv[0] == 'gen':
        try:
            path, info = gen.expand(argv[1], variant=(argv[2] if len(argv) > 2 else None))
        except (gen.GenError, gen.ScanError) as e:
            print('UNDECIDED (generator):', e)
            return 2
        print(path)
        return 0
    if argv[0] == 'check':
        from . import check
        pid = argv[1]
        tier = os.environ.get('VERIF_TIER', 'quick')
        if '--tier' in argv:
            tier = argv[argv.index('--tier') + 1]
        seed = int(os.environ.get('VERIF_SEED', '0') or 0)
        return check.check(pid, tier, seed)
    if argv[0] == 'manifest':
        from . import manifest
        manifest.build()
        print('MANIFEST.json written')
        return 0
    if argv[0] == 'setup':
        import shutil
        for d in ('work', 'evidence', 'replays'):
            os.makedirs(os.path.join(gen.VERIF, d), exist_ok=True)
        ok = shutil.which('verus') is not None
        print('verus:', shutil.which('verus'))
        return 0 if ok else 2
    print('unknown command', argv[0])
    return 2
