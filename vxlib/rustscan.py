"""Small comment/string/brace-aware scanner for Rust source files.

It does not parse Rust. It finds items (impl blocks, fns, structs, enums) by
name in text whose comments and literal contents have been blanked out
("masked"), so brace matching and regular expressions are reliable, and it
returns spans that index the ORIGINAL text.
"""
import re


class ScanError(Exception):
    pass


def mask(src):
    """Return (masked, nocomment_flags).

    masked: same length as src; comment bodies, string/char literal contents
    are replaced by spaces (newlines kept).
    kinds: list of same length, 'c' for comment chars, 's' for literal-content
    chars, ' ' otherwise.
    """
    n = len(src)
    out = list(src)
    kinds = [' '] * n
    i = 0
    while i < n:
        c = src[i]
        if c == '/' and i + 1 < n and src[i + 1] == '/':
            j = src.find('\n', i)
            if j < 0:
                j = n
            for k in range(i, j):
                out[k] = ' '
                kinds[k] = 'c'
            i = j
        elif c == '/' and i + 1 < n and src[i + 1] == '*':
            depth = 1
            j = i + 2
            while j < n and depth > 0:
                if src.startswith('/*', j):
                    depth += 1
                    j += 2
                elif src.startswith('*/', j):
                    depth -= 1
                    j += 2
                else:
                    j += 1
            for k in range(i, j):
                if src[k] != '\n':
                    out[k] = ' '
                kinds[k] = 'c'
            i = j
        elif c == '"' or (c in 'rb' and _raw_or_byte_string_start(src, i)):
            # string literal (plain, raw, byte)
            j = i
            if src[j] == 'b':
                j += 1
            hashes = 0
            raw = False
            if j < n and src[j] == 'r':
                raw = True
                j += 1
                while j < n and src[j] == '#':
                    hashes += 1
                    j += 1
            # src[j] == '"'
            start_content = j + 1
            j += 1
            if raw:
                term = '"' + '#' * hashes
                e = src.find(term, j)
                if e < 0:
                    raise ScanError('unterminated raw string')
                end_content = e
                j = e + len(term)
            else:
                while j < n and src[j] != '"':
                    if src[j] == '\\':
                        j += 1
                    j += 1
                end_content = j
                j += 1
            for k in range(start_content, end_content):
                if src[k] != '\n':
                    out[k] = ' '
                kinds[k] = 's'
            i = j
        elif c == "'":
            # char literal or lifetime
            if i + 2 < n and src[i + 1] == '\\':
                j = src.find("'", i + 2)
                # handle '\'' case
                if j == i + 2:
                    j = src.find("'", i + 3)
                for k in range(i + 1, j):
                    out[k] = ' '
                    kinds[k] = 's'
                i = j + 1
            elif i + 2 < n and src[i + 2] == "'":
                out[i + 1] = ' '
                kinds[i + 1] = 's'
                i += 3
            else:
                i += 1  # lifetime
        else:
            i += 1
    return ''.join(out), kinds


def _raw_or_byte_string_start(src, i):
    # is src[i:] the start of r"..", r#"..", b"..", br".."? and not part of an identifier
    if i > 0 and (src[i - 1].isalnum() or src[i - 1] == '_'):
        return False
    m = re.match(r'(b?r#*"|b")', src[i:i + 12])
    return m is not None


def strip_comments(src):
    """Remove comments (replace each with a single space), keep everything else."""
    m, kinds = mask(src)
    out = []
    i = 0
    n = len(src)
    while i < n:
        if kinds[i] == 'c':
            j = i
            while j < n and kinds[j] == 'c':
                j += 1
            # keep newlines so that line structure is approximately preserved
            seg = src[i:j]
            out.append(' ' + '\n' * seg.count('\n'))
            i = j
        else:
            out.append(src[i])
            i += 1
    return ''.join(out)


OPEN = {'{': '}', '(': ')', '[': ']'}
CLOSE = {'}': '{', ')': '(', ']': '['}


def match_close(masked, i):
    """masked[i] is an opening bracket; return index of its matching closer."""
    stack = []
    n = len(masked)
    j = i
    while j < n:
        c = masked[j]
        if c in OPEN:
            stack.append(c)
        elif c in CLOSE:
            if not stack or stack[-1] != CLOSE[c]:
                raise ScanError('unbalanced bracket at %d' % j)
            stack.pop()
            if not stack:
                return j
        j += 1
    raise ScanError('no matching bracket for %d' % i)


def norm_ws(s):
    return re.sub(r'\s+', '', s)


class RustFile:
    def __init__(self, path, text=None):
        self.path = path
        self.src = open(path).read() if text is None else text
        self.masked, self.kinds = mask(self.src)

    def line_of(self, pos):
        return self.src.count('\n', 0, pos) + 1

    # ---- impl blocks -------------------------------------------------
    def impl_blocks(self):
        """Yield (header_norm, body_open, body_close) for every impl block at any depth."""
        for m in re.finditer(r'\bimpl\b', self.masked):
            i = m.end()
            # header runs to the first '{' at bracket depth 0 (angle brackets ignored)
            j = i
            depth = 0
            n = len(self.masked)
            while j < n:
                c = self.masked[j]
                if c in '([':
                    depth += 1
                elif c in ')]':
                    depth -= 1
                elif c == '{' and depth == 0:
                    break
                elif c == ';' and depth == 0:
                    j = -1
                    break
                j += 1
            if j < 0 or j >= n:
                continue
            header = self.src[i:j]
            # drop leading generics: impl<...>
            h = header.strip()
            if h.startswith('<'):
                d = 0
                for k, ch in enumerate(h):
                    if ch == '<':
                        d += 1
                    elif ch == '>':
                        d -= 1
                        if d == 0:
                            h = h[k + 1:]
                            break
            # drop where clause
            h = re.split(r'\bwhere\b', h)[0]
            yield norm_header(h), j, match_close(self.masked, j)

    def find_fn(self, owner, name):
        """owner: 'Type', 'Trait for Type' or '' (free fn). Returns list of FnItem."""
        res = []
        if owner:
            want = norm_header(owner)
            for h, o, c in self.impl_blocks():
                if h == want:
                    res.extend(self._fns_in(o + 1, c, name))
        else:
            res.extend(self._fns_in(0, len(self.masked), name, depth0_only=True))
        return res

    def _fns_in(self, start, end, name, depth0_only=False):
        out = []
        for m in re.finditer(r'\bfn\s+' + re.escape(name) + r'\s*[<(]', self.masked[start:end]):
            p = start + m.start()
            # must be at brace depth 0 relative to start
            if self._depth(start, p) != 0:
                continue
            # signature end: first '{' at paren depth 0
            j = p
            depth = 0
            while j < end:
                c = self.masked[j]
                if c in '([':
                    depth += 1
                elif c in ')]':
                    depth -= 1
                elif c == '{' and depth == 0:
                    break
                elif c == ';' and depth == 0:
                    j = -1
                    break
                j += 1
            if j < 0:
                continue  # declaration without body
            close = match_close(self.masked, j)
            out.append(FnItem(self, p, j, close))
        return out

    def _depth(self, start, p):
        d = 0
        for c in self.masked[start:p]:
            if c == '{':
                d += 1
            elif c == '}':
                d -= 1
        return d

    def all_fns_in_impl(self, owner):
        """Names + signatures of all fns directly inside impl blocks of owner."""
        want = norm_header(owner)
        out = []
        for h, o, c in self.impl_blocks():
            if h != want:
                continue
            for m in re.finditer(r'\bfn\s+([A-Za-z_][A-Za-z0-9_]*)\s*[<(]', self.masked[o + 1:c]):
                p = o + 1 + m.start()
                if self._depth(o + 1, p) != 0:
                    continue
                j = self.masked.find('{', p)
                out.append((m.group(1), self.src[p:j].strip(), self.line_of(p)))
        return out

    # ---- structs / enums ----------------------------------------------
    def find_type(self, kind, name):
        """kind: 'struct' or 'enum'. Returns (attrs_text, decl_text) with decl_text comment-free."""
        m = re.search(r'\b' + kind + r'\s+' + re.escape(name) + r'\b', self.masked)
        if not m:
            raise ScanError('%s %s not found in %s' % (kind, name, self.path))
        p = m.start()
        # find end: '{...}' or '(...);' or ';'
        j = m.end()
        n = len(self.masked)
        while j < n and self.masked[j] not in '{(;':
            j += 1
        if self.masked[j] == '{':
            e = match_close(self.masked, j) + 1
        elif self.masked[j] == '(':
            e = match_close(self.masked, j) + 1
            while self.masked[e] != ';':
                e += 1
            e += 1
        else:
            e = j + 1
        # attributes preceding: scan backwards over whitespace, comments, #[...] groups
        a = p
        # step back over visibility
        pre = self.masked[:p].rstrip()
        vm = re.search(r'(pub(\s*\([^)]*\))?)$', pre)
        if vm:
            pre = pre[:vm.start()].rstrip()
        attrs = []
        while pre.endswith(']'):
            # find matching '['
            k = len(pre) - 1
            d = 0
            while k >= 0:
                if pre[k] == ']':
                    d += 1
                elif pre[k] == '[':
                    d -= 1
                    if d == 0:
                        break
                k -= 1
            if k > 0 and pre[k - 1] == '#':
                attrs.append(self.src[k - 1:len(pre)])
                pre = pre[:k - 1].rstrip()
            else:
                break
        decl = self.src[p:e]
        dm = self.masked[p:e]
        return list(reversed(attrs)), decl, dm


def norm_header(h):
    return re.sub(r'\s+', ' ', h.strip()).replace(' <', '<').replace('< ', '<').replace(' >', '>').replace("<'_>", '').replace(", ", ",")


class FnItem:
    def __init__(self, rf, sig_start, body_open, body_close):
        self.rf = rf
        self.sig_start = sig_start
        self.body_open = body_open
        self.body_close = body_close

    @property
    def signature(self):
        return self.rf.src[self.sig_start:self.body_open].strip()

    @property
    def body(self):
        return self.rf.src[self.body_open:self.body_close + 1]

    @property
    def line(self):
        return self.rf.line_of(self.sig_start)

    @property
    def end_line(self):
        return self.rf.line_of(self.body_close)
