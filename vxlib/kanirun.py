"""Kani leaves: harnesses in /verif/kani on the real crate (path dependency on /repo)."""
import os
import re
import shutil
import subprocess
import time

from . import gen

KDIR = os.path.join(gen.VERIF, 'kani')


def _kdir():
    """the harness crate; when a scratch worktree is being checked (VX_REPO), a copy of it that depends on that tree"""
    if gen.REPO == '/repo':
        return KDIR
    d = os.path.join(gen.OUT, 'kani')
    os.makedirs(os.path.join(d, 'src'), exist_ok=True)
    os.makedirs(os.path.join(d, '.cargo'), exist_ok=True)
    open(os.path.join(d, 'Cargo.toml'), 'w').write(open(os.path.join(KDIR, 'Cargo.toml')).read().replace('"/repo"', '"%s"' % gen.REPO))
    open(os.path.join(d, '.cargo', 'config.toml'), 'w').write(open(os.path.join(KDIR, '.cargo', 'config.toml')).read().replace('/verif/work/kani-target', os.path.join(gen.OUT, 'kani-target')))
    shutil.copyfile(os.path.join(KDIR, 'src', 'lib.rs'), os.path.join(d, 'src', 'lib.rs'))
    return d


def counterexample(name, unwind=12, timeout=600):
    """Re-runs a FAILED harness with Kani's concrete playback and returns the printed unit test (the failing input as
    concrete bytes for every kani::any() of the harness), or None."""
    kd = _kdir()
    cmd = ['cargo', 'kani', '-Z', 'function-contracts', '-Z', 'stubbing', '-Z', 'concrete-playback', '--concrete-playback=print',
           '--default-unwind', str(unwind), '--harness', name]
    env = dict(os.environ)
    env['CARGO_NET_OFFLINE'] = 'true'
    env['RUSTFLAGS'] = (env.get('RUSTFLAGS', '') + ' --cfg bsv_verif').strip()
    try:
        p = subprocess.run(cmd, cwd=kd, env=env, stdout=subprocess.PIPE, stderr=subprocess.STDOUT, text=True, timeout=timeout)
    except subprocess.TimeoutExpired:
        return None
    m = re.search(r'Concrete playback unit test for `[^`]*`:\s*```\s*(.*?)```', p.stdout, re.S)
    return m.group(1).strip() if m else None


def run_harnesses(names, unwind=12, timeout=900):
    """Returns dict name -> {status: ok|failed|undecided, checks, failed_checks, seconds, failed_desc, raw}"""
    if not names:
        return {}, ''
    kd = _kdir()
    lock = os.path.join(gen.REPO, 'Cargo.lock')
    shutil.copyfile(lock if os.path.exists(lock) else '/repo/Cargo.lock', os.path.join(kd, 'Cargo.lock'))
    cmd = ['cargo', 'kani', '-Z', 'function-contracts', '-Z', 'stubbing', '--default-unwind', str(unwind)]
    for n in names:
        cmd += ['--harness', n]
    env = dict(os.environ)
    env['CARGO_NET_OFFLINE'] = 'true'
    env['RUSTFLAGS'] = (env.get('RUSTFLAGS', '') + ' --cfg bsv_verif').strip()
    t0 = time.time()
    try:
        p = subprocess.run(cmd, cwd=kd, env=env, stdout=subprocess.PIPE, stderr=subprocess.STDOUT, text=True, timeout=timeout)
        out = p.stdout
    except subprocess.TimeoutExpired as e:
        out = (e.stdout or b'').decode() if isinstance(e.stdout, bytes) else (e.stdout or '')
        out += '\nTIMEOUT'
    res = {}
    # split per harness
    parts = re.split(r'^Checking harness ', out, flags=re.M)
    for part in parts[1:]:
        name = part.split('...', 1)[0].strip()
        short = name.split('::')[-1]
        st = 'undecided'
        if 'VERIFICATION:- SUCCESSFUL' in part:
            st = 'ok'
        elif 'VERIFICATION:- FAILED' in part:
            st = 'failed'
        m = re.search(r'\*\* (\d+) of (\d+) failed', part)
        tm = re.search(r'Verification Time: ([0-9.]+)s', part)
        fails = re.findall(r'Failed Checks: (.*)', part)
        # an unwinding assertion failure means the bound was too small: undecided, not a violation
        if st == 'failed' and fails and all('unwinding assertion' in f for f in fails):
            st = 'undecided'
        cov = re.search(r'\*\* (\d+) of (\d+) cover properties satisfied', part)
        res[short] = {'status': st, 'checks': int(m.group(2)) if m else 0, 'failed_checks': int(m.group(1)) if m else 0,
                      'seconds': float(tm.group(1)) if tm else 0.0, 'failed_desc': fails,
                      'covers': (int(cov.group(1)), int(cov.group(2))) if cov else None,
                      'raw': part[-3000:]}
    for n in names:
        if n not in res:
            res[n] = {'status': 'undecided', 'checks': 0, 'failed_checks': 0, 'seconds': 0.0,
                      'failed_desc': ['harness did not run: ' + out[-600:]], 'covers': None, 'raw': out[-3000:]}
    return res, ' '.join(cmd)
