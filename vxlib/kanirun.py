"""Kani leaves: harnesses in /verif/kani on the real crate (path dependency on /repo)."""
import os
import re
import shutil
import subprocess
import time

from . import gen

KDIR = os.path.join(gen.VERIF, 'kani')


def run_harnesses(names, unwind=12, timeout=900):
    """Returns dict name -> {status: ok|failed|undecided, checks, failed_checks, seconds, failed_desc, raw}"""
    if not names:
        return {}, ''
    shutil.copyfile(os.path.join(gen.REPO, 'Cargo.lock'), os.path.join(KDIR, 'Cargo.lock'))
    cmd = ['cargo', 'kani', '-Z', 'function-contracts', '-Z', 'stubbing', '--default-unwind', str(unwind)]
    for n in names:
        cmd += ['--harness', n]
    env = dict(os.environ)
    env['CARGO_NET_OFFLINE'] = 'true'
    env['RUSTFLAGS'] = (env.get('RUSTFLAGS', '') + ' --cfg bsv_verif').strip()
    t0 = time.time()
    try:
        p = subprocess.run(cmd, cwd=KDIR, env=env, stdout=subprocess.PIPE, stderr=subprocess.STDOUT, text=True, timeout=timeout)
        out = p.stdout
    except subprocess.TimeoutExpired as e:
        out = (e.stdout or b'').decode() if isinstance(e.stdout, bytes) else (e.stdout or '')
        out += '\nTIMEOUT'
    res = {}
    # split per harness
    parts = re.split(r'^Checking harness ', out, flags=re.M)
    for part in parts[1:]:
        name = part.split('...', 1)[0].strip()
        short = name.split('::')[-1]
        st = 'undecided'
        if 'VERIFICATION:- SUCCESSFUL' in part:
            st = 'ok'
        elif 'VERIFICATION:- FAILED' in part:
            st = 'failed'
        m = re.search(r'\*\* (\d+) of (\d+) failed', part)
        tm = re.search(r'Verification Time: ([0-9.]+)s', part)
        fails = re.findall(r'Failed Checks: (.*)', part)
        # an unwinding assertion failure means the bound was too small: undecided, not a violation
        if st == 'failed' and fails and all('unwinding assertion' in f for f in fails):
            st = 'undecided'
        cov = re.search(r'\*\* (\d+) of (\d+) cover properties satisfied', part)
        res[short] = {'status': st, 'checks': int(m.group(2)) if m else 0, 'failed_checks': int(m.group(1)) if m else 0,
                      'seconds': float(tm.group(1)) if tm else 0.0, 'failed_desc': fails,
                      'covers': (int(cov.group(1)), int(cov.group(2))) if cov else None,
                      'raw': part[-3000:]}
    for n in names:
        if n not in res:
            res[n] = {'status': 'undecided', 'checks': 0, 'failed_checks': 0, 'seconds': 0.0,
                      'failed_desc': ['harness did not run: ' + out[-600:]], 'covers': None, 'raw': out[-3000:]}
    return res, ' '.join(cmd)
