import json, os
from .props import PROPS, NOT_CLAIMED
from . import gen

def build():
    checks = []
    for pid in sorted(PROPS):
        p = PROPS[pid]
        checks.append({
            'property_id': pid,
            'quick_cmd': './vx check %s --tier quick' % pid,
            'thorough_cmd': './vx check %s --tier thorough' % pid,
            'evidence_file': 'evidence/%s.json' % pid,
            'replay_cmd_template': './vx replay {path}',
            'engine': p.get('engine', 'verus'),
            'level_claimed': {'category': 'proof', 'text': p['level_text'], 'design_ref': p.get('design_ref', 'DESIGN.md section 4')},
            'level_note': p['level_note'],
            'technique': p.get('technique', 'contract-based deductive verification (Verus) of functions extracted mechanically from /repo on every run'),
        })
    na = [{'property_id': k, 'reason': v} for k, v in sorted(NOT_CLAIMED.items()) if k not in PROPS]
    m = {
        'version': 1,
        'setup_cmd': './vx setup',
        'hooks': {
            'guard': '--cfg bsv_verif',
            'enable': 'RUSTFLAGS="--cfg bsv_verif" for the Kani harness crate and the replay probe; Verus reads the source text and needs no hook',
            'baseline_off_cmd': 'cd /repo && cargo test --workspace --no-fail-fast --offline',
            'source_commits': ['eeda671ca8c1fc7f3df220b45f437704a6ee4979'],
            'add_only': True,
        },
        'engines': [
            {'name': 'verus', 'path': '/verif/vx', 'serves_properties': sorted(PROPS), 'kind_free_text': 'Verus 0.2026.09.13 on single-file units generated from /repo by vx (contracts in /verif/contracts, shims in /verif/shims)'},
        ],
        'checks': checks,
        'not_applicable': na,
        'notes': 'See DESIGN.md. Exit codes of ./vx check: 0 held, 1 VIOLATION (failed obligation not in known-findings.json), 2 undecided (generator lost an anchor / unsupported construct / solver resource limit) - never an alarm.',
    }
    with open(os.path.join(gen.VERIF, 'MANIFEST.json'), 'w') as f:
        json.dump(m, f, indent=1)
    return m
