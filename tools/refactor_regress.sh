#!/bin/bash
# re-evaluates every saved behaviour-preserving patch (refactors/<id>/patch.diff) against the current checks on a scratch worktree
WT=/tmp/wt_rfreg
git -C /repo worktree remove --force $WT 2>/dev/null; git -C /repo worktree prune
git -C /repo worktree add -q $WT HEAD
for g in $(ls /verif/refactors | sed 's/-[0-9]*$//' | sort -u); do
  rm -rf $WT/_refactor; mkdir -p $WT/_refactor
  for k in 1 2 3 4; do [ -f /verif/refactors/$g-$k/patch.diff ] && cp /verif/refactors/$g-$k/patch.diff $WT/_refactor/patch_$k.diff && cp /verif/refactors/$g-$k/notes.md $WT/_refactor/notes_$k.md 2>/dev/null; done
  python3 /verif/tools/refactor_eval.py $WT $g
done
git -C /repo worktree remove --force $WT; git -C /repo worktree prune
