#!/bin/bash
# verifies every unit under several solver seeds; a unit whose result changes with the seed has an unstable proof
cd /verif
for f in units/*.rs; do u=$(basename $f .rs); ./vx gen $u >/dev/null 2>&1
  RES=""
  for sd in ${SEEDS:-0 1 2 3}; do R=$(verus work/$u.rs --rlimit 40 --num-threads 16 --smt-option smt.random_seed=$sd 2>&1 | grep -E "verification results" | sed 's/verification results:: //'); RES="$RES | $R"; done
  echo "$u $RES"
done
for u in tx_wire script_parse; do ./vx gen $u alloc >/dev/null 2>&1; RES=""; for sd in ${SEEDS:-0 1 2 3}; do R=$(verus work/${u}__alloc.rs --rlimit 40 --smt-option smt.random_seed=$sd 2>&1 | grep -E "verification results" | sed 's/verification results:: //'); RES="$RES | $R"; done; echo "$u@alloc $RES"; done
