#!/bin/bash
# usage: tools/seed_eval.sh <worktree> <k> <seed-id> <prop> [more props...]
# 1. confirms in the scratch worktree: builds, full suite passes with the patch, demo fails with / passes without the patch
# 2. re-applies the patch in the worktree and runs the quick checks of the given properties on it (VX_REPO)
WT=$1; K=$2; ID=$3; shift 3; PROPS="$@"
S=$WT/_seed
OUT=/verif/seeded/$ID
mkdir -p $OUT
cp $S/patch_$K.diff $OUT/patch.diff; cp $S/demo_$K.rs $OUT/demo.rs; cp $S/notes_$K.md $OUT/notes.md 2>/dev/null
cd $WT && git checkout -q -- src && rm -f tests/seed_demo.rs
git apply $S/patch_$K.diff || { echo "PATCH DOES NOT APPLY"; exit 3; }
cargo build --offline >/dev/null 2>&1 && BUILD=ok || BUILD=fail
cargo test --workspace --no-fail-fast --offline > $OUT/suite_with_patch.log 2>&1 && SUITE=pass || SUITE=fail
cp $S/demo_$K.rs tests/seed_demo.rs
cargo test --offline --test seed_demo > $OUT/demo_with_patch.log 2>&1 && DEMO_WITH=pass || DEMO_WITH=fail
git checkout -q -- src
cargo test --offline --test seed_demo > $OUT/demo_without_patch.log 2>&1 && DEMO_WITHOUT=pass || DEMO_WITHOUT=fail
rm -f tests/seed_demo.rs
echo "build=$BUILD suite_with_patch=$SUITE demo_with_patch=$DEMO_WITH demo_without_patch=$DEMO_WITHOUT"
# 2. run the checks against the scratch worktree with the patch applied (VX_REPO / VX_OUT: /repo is not touched)
cd $WT && git apply $OUT/patch.diff || { echo "PATCH DOES NOT APPLY"; exit 3; }
RES=""
for P in $PROPS; do
  cd /verif && VX_REPO=$WT VX_OUT=/tmp/vxout_$ID ./vx check $P > $OUT/check_$P.log 2>&1; RC=$?
  RES="$RES $P:rc=$RC"
  grep -E "^VIOLATION|^UNDECIDED" $OUT/check_$P.log | cut -c1-260 | head -5
done
cd $WT && git checkout -q -- src
rm -rf /tmp/vxout_$ID
echo "checks:$RES"
python3 - <<PY
import json
json.dump({"seed": "$ID", "worktree": "$WT", "build": "$BUILD", "existing_suite_with_patch": "$SUITE",
           "demo_with_patch": "$DEMO_WITH", "demo_without_patch": "$DEMO_WITHOUT", "checks_run": "$RES".split()}, open("$OUT/run.json", "w"), indent=1)
PY
