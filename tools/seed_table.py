#!/usr/bin/env python3
"""prints the markdown table of seeded changes from seeded/*/meta.json (+ first line of notes.md)"""
import json, os, re
V = '/verif/seeded'
print('| seed | what the change does (from the author\'s notes) | result of the current checks |')
print('|---|---|---|')
for d in sorted(os.listdir(V)):
    mf = os.path.join(V, d, 'meta.json')
    if not os.path.exists(mf):
        continue
    m = json.load(open(mf))
    note = ''
    nf = os.path.join(V, d, 'notes.md')
    if os.path.exists(nf):
        for l in open(nf):
            l = l.strip().lstrip('#').strip()
            if len(l) > 20:
                note = re.sub(r'\|', '/', l)[:140]
                break
    if m.get('detected') is None:
        res = 'patch no longer applies (the lines were changed by a later fix)'
    elif m['detected']:
        res = 'VIOLATION (exit 1) by ' + ', '.join(m.get('detected_by', []))
    else:
        res = 'undecided (exit 2) in ' + ', '.join(m.get('undecided_in', [])) if m.get('undecided_in') else 'NOT detected (exit 0)'
    print('| %s | %s | %s |' % (d, note, res))
