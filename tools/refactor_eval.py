#!/usr/bin/env python3
"""Runs the checks affected by each behaviour-preserving patch under <worktree>/_refactor against the worktree
(VX_REPO / VX_OUT). exit 0 = held (right answer), 2 = undecided, 1 = FALSE ALARM. usage: refactor_eval.py <worktree> <tag>"""
import json, os, re, subprocess, sys, shutil
V = '/verif'
WT, TAG = sys.argv[1], sys.argv[2]
MAP = [('src/keypair/private_key', ['C07', 'C09']), ('src/keypair/public_key', ['C07']), ('src/keypair/extended', ['C08']), ('src/script/script_template', ['C19']),
       ('src/transaction/match_criteria', ['C19']), ('src/signature/', ['C06', 'C09']), ('src/transaction/mod.rs', ['C01', 'C04', 'C09']),
       ('src/transaction/txin', ['C01', 'C09', 'C15']), ('src/transaction/txout', ['C01', 'C09']), ('src/script/mod.rs', ['C02', 'C01', 'C09']),
       ('src/traits/varint', ['C01']), ('src/transaction/sighash', ['C03', 'C04', 'C10', 'C15']), ('src/interpreter/', ['C14', 'C16', 'C15']),
       ('src/address/', ['C07']), ('src/ecdsa/', ['C05']), ('src/ecies/', ['C11', 'C09']), ('src/bsm/', ['C12']), ('src/hash/', ['C13']), ('src/encryption/', ['C20', 'C11']), ('src/kdf/', ['C13'])]
OUT = '/tmp/vxout_' + TAG
env = dict(os.environ, VX_REPO=WT, VX_OUT=OUT)
res = []
for k in range(1, 9):
    pf = '%s/_refactor/patch_%d.diff' % (WT, k)
    if not os.path.exists(pf):
        continue
    subprocess.run(['git', '-C', WT, 'checkout', '-q', '--', 'src'], check=True)
    if subprocess.run(['git', '-C', WT, 'apply', pf]).returncode != 0:
        res.append({'patch': '%s-%d' % (TAG, k), 'error': 'does not apply'})
        continue
    text = open(pf).read()
    files = re.findall(r'^\+\+\+ b/(\S+)', text, re.M)
    props = []
    for f in files:
        for pre, ps in MAP:
            if f.startswith(pre):
                props += [p for p in ps if p not in props]
    rec = {'patch': '%s-%d' % (TAG, k), 'files': files, 'checks': {}}
    for p in props:
        c = subprocess.run(['./vx', 'check', p], cwd=V, env=env, capture_output=True, text=True)
        lines = [l[:300] for l in c.stdout.splitlines() if l.startswith(('VIOLATION', 'UNDECIDED'))]
        rec['checks'][p] = {'exit': c.returncode, 'lines': lines[:4]}
    res.append(rec)
    print(rec['patch'], files, {p: v['exit'] for p, v in rec['checks'].items()}, flush=True)
    for p, v in rec['checks'].items():
        for l in v['lines'][:2]:
            print('    ', p, l[:260], flush=True)
    dst = '%s/refactors/%s-%d' % (V, TAG, k)
    os.makedirs(dst, exist_ok=True)
    shutil.copy(pf, dst + '/patch.diff')
    nf = '%s/_refactor/notes_%d.md' % (WT, k)
    if os.path.exists(nf):
        shutil.copy(nf, dst + '/notes.md')
    json.dump(rec, open(dst + '/result.json', 'w'), indent=1)
subprocess.run(['git', '-C', WT, 'checkout', '-q', '--', 'src'])
shutil.rmtree(OUT, ignore_errors=True)
