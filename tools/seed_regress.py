#!/usr/bin/env python3
"""Re-runs every seeded change under /verif/seeded against the CURRENT checks, in a scratch worktree of /repo
(VX_REPO / VX_OUT: /repo itself and the committed evidence are not touched), and rewrites seeded/<id>/meta.json.
usage: tools/seed_regress.py [seed-id ...]"""
import json, os, re, subprocess, sys, shutil
V = '/verif'
WT = '/tmp/wt_seedreg'
OUT = '/tmp/vxout_seedreg'
EXTRA = {'C01-e': ['C02'], 'C12-f': ['C06'], 'C12-e': ['C06'], 'C02-f': ['C01'], 'C15-c': ['C03'], 'C12-d': ['C06'], 'C06-d': ['C19'], 'C03-c': ['C04'], 'C01-d': ['C02'], 'C02-c': ['C01'], 'C02-d': ['C09'], 'C09-d': ['C07'], 'C15-b': ['C10'], 'C12-a': ['C01'], 'C06-b': ['C15'], 'C05-b': ['C15'], 'C14-b': ['C16'], 'C09-a': [], 'C12-b': ['C05']}
ids = sys.argv[1:] or sorted(d for d in os.listdir(V + '/seeded') if os.path.exists(V + '/seeded/%s/patch.diff' % d))
subprocess.run(['git', '-C', '/repo', 'worktree', 'remove', '--force', WT], capture_output=True)
subprocess.run(['git', '-C', '/repo', 'worktree', 'prune'])
subprocess.run(['git', '-C', '/repo', 'worktree', 'add', '-q', WT, 'HEAD'], check=True)
env = dict(os.environ, VX_REPO=WT, VX_OUT=OUT)
summary = []
for sid in ids:
    d = V + '/seeded/' + sid
    subprocess.run(['git', '-C', WT, 'checkout', '-q', '--', '.'], check=True)
    r = subprocess.run(['git', '-C', WT, 'apply', d + '/patch.diff'], capture_output=True, text=True)
    meta = {'seed': sid, 'property': sid.split('-')[0], 'applies_to_head': r.returncode == 0}
    if os.path.exists(d + '/run.json'):
        meta['confirmation'] = {k: v for k, v in json.load(open(d + '/run.json')).items() if k in ('build', 'existing_suite_with_patch', 'demo_with_patch', 'demo_without_patch')}
    if r.returncode != 0:
        meta['note'] = 'patch no longer applies to HEAD of /repo (a later fix touched the same lines): ' + r.stderr.strip()[:200]
        meta['detected'] = None
    else:
        props = [meta['property']] + EXTRA.get(sid, [])
        meta['checks'] = {}
        for p in props:
            shutil.rmtree(OUT + '/replays', ignore_errors=True)
            c = subprocess.run(['./vx', 'check', p], cwd=V, env=env, capture_output=True, text=True)
            lines = [l[:400] for l in c.stdout.splitlines() if l.startswith(('VIOLATION', 'UNDECIDED', 'KNOWN-FINDING'))]
            meta['checks'][p] = {'exit': c.returncode, 'lines': lines[:6]}
        own = meta['checks'][meta['property']]['exit']
        meta['detected'] = (own == 1) or any(v['exit'] == 1 for v in meta['checks'].values())
        meta['detected_by'] = [p for p, v in meta['checks'].items() if v['exit'] == 1]
        meta['undecided_in'] = [p for p, v in meta['checks'].items() if v['exit'] == 2]
    json.dump(meta, open(d + '/meta.json', 'w'), indent=1)
    summary.append('%s detected=%s by=%s undecided=%s' % (sid, meta.get('detected'), meta.get('detected_by'), meta.get('undecided_in')))
    print(summary[-1], flush=True)
subprocess.run(['git', '-C', '/repo', 'worktree', 'remove', '--force', WT])
subprocess.run(['git', '-C', '/repo', 'worktree', 'prune'])
shutil.rmtree(OUT, ignore_errors=True)
