#!/bin/bash
# runs every claimed property's check (tier $1, default quick) on /repo and prints one summary line each
TIER=${1:-quick}
cd /verif
for P in $(python3 -c "import json;print(' '.join(c['property_id'] for c in json.load(open('MANIFEST.json'))['checks']))" 2>/dev/null || python3 -c "import sys;sys.path.insert(0,'/verif');from vxlib.props import PROPS;print(' '.join(sorted(PROPS)))"); do
  OUT=$(./vx check $P --tier $TIER 2>&1); RC=$?
  echo "$P rc=$RC $(echo "$OUT" | tail -1)"
  echo "$OUT" | grep -E "^(VIOLATION|UNDECIDED)" | cut -c1-250 | head -5
done
