#!/usr/bin/env python3
"""For every @before/@after proof hint in contracts/*.vc: delete it, re-verify the units that extract the function,
keep the deletion when every such unit still verifies with 0 errors (the hint was not needed, and a hint that is not
there cannot be lost by a refactoring). Usage: tools/hint_prune.py [file.vc ...]"""
import os, re, subprocess, sys, json
V = '/verif'
sys.path.insert(0, V)
SKIP = set()

def units_of(key):
    res = []
    for f in sorted(os.listdir(V + '/units')):
        t = open(V + '/units/' + f).read()
        if re.search(r'^//@(fn|fncases)\s+' + re.escape(key) + r'(\s|$)', t, re.M):
            res.append(f[:-3])
    return res

def verify(unit):
    r = subprocess.run(['./vx', 'gen', unit], cwd=V, capture_output=True, text=True)
    if r.returncode != 0:
        return False, 'gen failed'
    r = subprocess.run(['verus', 'work/%s.rs' % unit, '--rlimit', '40', '--num-threads', '16'], cwd=V, capture_output=True, text=True)
    m = re.search(r'verification results:: (\d+) verified, (\d+) errors', r.stdout + r.stderr)
    if not m:
        return False, 'no result'
    base = BASE.get(unit)
    if base is None:
        return (m.group(2) == '0'), m.group(0)
    return ((int(m.group(1)), int(m.group(2))) == base), m.group(0) + ' (baseline %s)' % (base,)

BASE = {}

def baseline(unit):
    # units with known findings have a non-zero error count on the unchanged tree: compare against it
    r = subprocess.run(['./vx', 'gen', unit], cwd=V, capture_output=True, text=True)
    r = subprocess.run(['verus', 'work/%s.rs' % unit, '--rlimit', '40', '--num-threads', '16'], cwd=V, capture_output=True, text=True)
    m = re.search(r'verification results:: (\d+) verified, (\d+) errors', r.stdout + r.stderr)
    if m:
        BASE[unit] = (int(m.group(1)), int(m.group(2)))

for u_ in ('interp', 'script_parse', 'script_ser'):
    baseline(u_)
print('baselines', BASE, flush=True)
files = sys.argv[1:] or [f for f in sorted(os.listdir(V + '/contracts')) if f.endswith('.vc') and f not in SKIP]
for f in files:
    path = V + '/contracts/' + f
    while True:
        lines = open(path).read().split('\n')
        done = True
        # enumerate hints
        hints = []
        key = None
        for i, l in enumerate(lines):
            m = re.match(r'@fn\s+(.*?)\s+@\s', l)
            if m:
                key = m.group(1)
            if re.match(r'@(before|after)\s', l):
                j = i + 1
                while j < len(lines) and not lines[j].startswith('@'):
                    j += 1
                hints.append((i, j, key, l))
        tried = getattr(sys.modules[__name__], '_tried', set())
        for (i, j, key, l) in hints:
            tag = (f, key, l)
            if tag in tried:
                continue
            tried.add(tag)
            sys.modules[__name__]._tried = tried
            text = '\n'.join(lines[i:j])
            if '// [' in text:
                print('KEEP (carries a labelled obligation) %s %s %s' % (f, key, l), flush=True)
                continue
            if 'let ghost' in text or 'let tracked' in text:
                print('KEEP (defines ghost state) %s %s %s' % (f, key, l), flush=True)
                continue
            us = units_of(key)
            if not us:
                print('SKIP (no unit) %s %s' % (f, key), flush=True)
                continue
            new = lines[:i] + lines[j:]
            open(path, 'w').write('\n'.join(new))
            ok = True
            why = ''
            for u in us:
                ok, why = verify(u)
                if not ok:
                    break
            if ok:
                print('REMOVED %s %s %s' % (f, key, l), flush=True)
                done = False
                break   # re-read file, indices changed
            else:
                open(path, 'w').write('\n'.join(lines))
                print('NEEDED  %s %s %s (%s)' % (f, key, l, why), flush=True)
        if done:
            break
