#!/usr/bin/env python3
"""Lists Result-returning functions under contract that have no clause implying `r is Ok` (one-directional contracts:
a change that makes the function stricter would still satisfy them). See DESIGN.md 9.9."""
import re, glob
for f in sorted(glob.glob('/verif/contracts/*.vc')):
    t = open(f).read()
    for m in re.finditer(r'@fn (.*?) @ (\S+)\n(.*?)(?=\n@fn |\Z)', t, re.S):
        key, body = m.group(1), m.group(3)
        head = body.split('\n@', 1)[0]
        if 'ensures' not in head or 'Result<' not in head.split('ensures')[0]:
            continue
        ens = head.split('ensures', 1)[1]
        ok = re.search(r'r is Ok\s*<==>|<==>\s*r is Ok|==>\s*r is Ok|r is Err\s*<==>|^\s*r is Ok\s*(&&|,)|match r \{|\{ r is Ok && .*\} else \{ r is Err \}|\(r is Ok\)\s*==', ens, re.M)
        if not ok:
            print('%-16s %s' % (f.split('/')[-1], key))
