// Replay probe: runs concrete inputs against the REAL library (linked from /repo).
// It never decides a property; it only demonstrates a failing input for an obligation the
// verifier has already reported, or shows that a recorded finding still reproduces.
use bsv::*;

fn hex(b: &[u8]) -> String { hex::encode(b) }

fn sample_tx() -> Transaction {
    let mut tx = Transaction::new(2, 0);
    let s = Script::from_hex("76a914000000000000000000000000000000000000000088ac").unwrap();
    tx.add_input(&TxIn::new(&[0x11; 32], 0, &Script::default(), Some(0xfffffffe)));
    tx.add_input(&TxIn::new(&[0x22; 32], 1, &Script::default(), Some(5)));
    tx.add_output(&TxOut::new(1000, &s));
    tx.add_output(&TxOut::new(2000, &s));
    tx
}

fn c04_set_input() -> bool {
    let mut tx = sample_tx();
    let s = Script::from_hex("51").unwrap();
    let _ = tx.sighash_preimage(SigHash::InputsOutputs, 0, &s, 1).unwrap(); // fills the cache
    tx.set_input(1, &TxIn::new(&[0x33; 32], 7, &Script::default(), Some(9)));
    let got = tx.sighash_preimage(SigHash::InputsOutputs, 0, &s, 1).unwrap();
    let mut fresh = Transaction::from_bytes(&tx.to_bytes().unwrap()).unwrap();
    let want = fresh.sighash_preimage(SigHash::InputsOutputs, 0, &s, 1).unwrap();
    println!("history : {}\nfresh   : {}", hex(&got), hex(&want));
    got == want
}

fn c04_set_output() -> bool {
    let mut tx = sample_tx();
    let s = Script::from_hex("51").unwrap();
    let _ = tx.sighash_preimage(SigHash::InputsOutputs, 0, &s, 1).unwrap();
    tx.set_output(1, &TxOut::new(777, &s));
    let got = tx.sighash_preimage(SigHash::InputsOutputs, 0, &s, 1).unwrap();
    let mut fresh = Transaction::from_bytes(&tx.to_bytes().unwrap()).unwrap();
    let want = fresh.sighash_preimage(SigHash::InputsOutputs, 0, &s, 1).unwrap();
    println!("history : {}\nfresh   : {}", hex(&got), hex(&want));
    got == want
}

fn main() {
    let args: Vec<String> = std::env::args().collect();
    let name = args.get(1).map(|s| s.as_str()).unwrap_or("");
    let ok = match name {
        "c04_set_input" => c04_set_input(),
        "c04_set_output" => c04_set_output(),
        _ => { eprintln!("unknown probe {}", name); std::process::exit(2) }
    };
    println!("{}: {}", name, if ok { "HOLDS" } else { "FAILS" });
    std::process::exit(if ok { 0 } else { 1 });
}
