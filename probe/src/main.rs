// Replay probe: runs concrete inputs against the REAL library (linked from /repo).
// It never decides a property; it only demonstrates a failing input for an obligation the
// verifier has already reported, or shows that a recorded finding still reproduces.
use bsv::*;

fn hex(b: &[u8]) -> String { hex::encode(b) }

fn sample_tx() -> Transaction {
    let mut tx = Transaction::new(2, 0);
    let s = Script::from_hex("76a914000000000000000000000000000000000000000088ac").unwrap();
    tx.add_input(&TxIn::new(&[0x11; 32], 0, &Script::default(), Some(0xfffffffe)));
    tx.add_input(&TxIn::new(&[0x22; 32], 1, &Script::default(), Some(5)));
    tx.add_output(&TxOut::new(1000, &s));
    tx.add_output(&TxOut::new(2000, &s));
    tx
}

fn c04_set_input() -> bool {
    let mut tx = sample_tx();
    let s = Script::from_hex("51").unwrap();
    let _ = tx.sighash_preimage(SigHash::InputsOutputs, 0, &s, 1).unwrap(); // fills the cache
    tx.set_input(1, &TxIn::new(&[0x33; 32], 7, &Script::default(), Some(9)));
    let got = tx.sighash_preimage(SigHash::InputsOutputs, 0, &s, 1).unwrap();
    let mut fresh = Transaction::from_bytes(&tx.to_bytes().unwrap()).unwrap();
    let want = fresh.sighash_preimage(SigHash::InputsOutputs, 0, &s, 1).unwrap();
    println!("history : {}\nfresh   : {}", hex(&got), hex(&want));
    got == want
}

fn c04_set_output() -> bool {
    let mut tx = sample_tx();
    let s = Script::from_hex("51").unwrap();
    let _ = tx.sighash_preimage(SigHash::InputsOutputs, 0, &s, 1).unwrap();
    tx.set_output(1, &TxOut::new(777, &s));
    let got = tx.sighash_preimage(SigHash::InputsOutputs, 0, &s, 1).unwrap();
    let mut fresh = Transaction::from_bytes(&tx.to_bytes().unwrap()).unwrap();
    let want = fresh.sighash_preimage(SigHash::InputsOutputs, 0, &s, 1).unwrap();
    println!("history : {}\nfresh   : {}", hex(&got), hex(&want));
    got == want
}


fn no_panic<F: FnOnce() -> bool + std::panic::UnwindSafe>(f: F) -> bool {
    match std::panic::catch_unwind(f) { Ok(v) => v, Err(_) => { println!("PANICKED"); false } }
}

fn c02_truncated_direct_push() -> bool {
    // KNOWN FINDING: a direct push that runs past the end is accepted and truncated
    match Script::from_bytes(&[0x02, 0x01]) { Ok(s) => { println!("accepted; re-serialises as {}", hex(&s.to_bytes())); false } Err(_) => true }
}
fn c02_truncated_pushdata() -> bool {
    match Script::from_bytes(&[0x4c, 0x03, 0x01]) { Ok(s) => { println!("accepted; re-serialises as {}", hex(&s.to_bytes())); false } Err(_) => true }
}
fn c02_pushdata_65536() -> bool { Script::get_pushdata_bytes(65536).map(|b| b == vec![0x4e, 0, 0, 1, 0]).unwrap_or(false) }
fn c01_varint_bytes_300() -> bool { let b = VarInt::get_varint_bytes(300); println!("{}", hex(&b)); b == vec![0xfd, 0x2c, 0x01] }
fn c09_txout_huge_script_len() -> bool {
    no_panic(|| TxOut::from_hex("0000000000000000ffffffffffffffffff").is_err())
}
fn c09_txout_truncated_script() -> bool {
    // 8 byte value, script length 5, only one script byte present
    no_panic(|| TxOut::from_hex("00000000000000000551").is_err())
}
fn c03_hash_sequence_le() -> bool {
    let mut tx = sample_tx();
    let s = Script::from_hex("51").unwrap();
    let pre = tx.sighash_preimage(SigHash::InputsOutputs, 0, &s, 1).unwrap();
    let mut seqs = vec![]; seqs.extend_from_slice(&0xfffffffeu32.to_le_bytes()); seqs.extend_from_slice(&5u32.to_le_bytes());
    let want = Hash::sha_256d(&seqs).to_bytes();
    println!("hashSequence in preimage: {}\nsha256d(LE sequences)   : {}", hex(&pre[36..68]), hex(&want));
    pre[36..68] == want[..]
}
fn c10_nested_codeseparator() -> bool {
    let mut s = Script::from_hex("63ab6851").unwrap(); // OP_IF OP_CODESEPARATOR OP_ENDIF OP_1
    s.remove_codeseparators();
    println!("{}", hex(&s.to_bytes()));
    s.to_bytes() == vec![0x63, 0x68, 0x51]
}
fn c10_single_index1() -> bool {
    let mut tx = sample_tx();
    let s = Script::from_hex("51").unwrap();
    let pre = tx.sighash_preimage(SigHash::SINGLE, 1, &s, 0).unwrap();
    // outputs section must be: count 2, null output (ffffffffffffffff 00), then output 1
    let out1 = tx.get_output(1).unwrap().to_bytes().unwrap();
    let mut want = vec![2u8]; want.extend_from_slice(&[0xff; 8]); want.push(0); want.extend_from_slice(&out1);
    let hay = hex(&pre); let needle = hex(&want);
    println!("preimage {}\nexpected outputs section {}", hay, needle);
    hay.contains(&needle)
}
fn c20_ctr_short_key() -> bool { no_panic(|| AES::encrypt(&[1, 2, 3], &[0; 16], b"hello", AESAlgorithms::AES128_CTR).is_err()) }
fn c09_compact_empty() -> bool { no_panic(|| Signature::from_compact_bytes(&[]).is_err()) && no_panic(|| Signature::from_compact_bytes(&[0u8; 65]).is_err()) }
fn c06_der_ending_in_flag_byte() -> bool {
    // find a signature whose DER ends in a sighash flag value and check it round-trips
    let key = PrivateKey::from_hex("0000000000000000000000000000000000000000000000000000000000000001").unwrap();
    for i in 0u32..2000 {
        let sig = key.sign_message(&i.to_le_bytes()).unwrap();
        let der = sig.to_der_bytes();
        if [0x01u8, 0x02, 0x03, 0x40, 0x41, 0x42, 0x43, 0x80, 0x81, 0x82, 0x83, 0xc1, 0xc2, 0xc3].contains(der.last().unwrap()) {
            println!("message {} gives DER ending in {:02x}", i, der.last().unwrap());
            return match Signature::from_der(&der) { Ok(s2) => s2.to_der_bytes() == der, Err(e) => { println!("rejected: {}", e); false } };
        }
    }
    true
}
fn c09_digest_wrong_len() -> bool {
    let key = PrivateKey::from_hex("0000000000000000000000000000000000000000000000000000000000000001").unwrap();
    let pk = key.to_public_key().unwrap();
    let sig = key.sign_message(b"x").unwrap();
    no_panic(move || ECDSA::verify_hashbuf(&[0u8; 5], &pk, &sig).is_err())
        && no_panic(|| ECDSA::sign_digest_with_deterministic_k(&PrivateKey::from_hex("0000000000000000000000000000000000000000000000000000000000000001").unwrap(), &[0u8; 31]).is_err())
}
fn c07_offcurve_pubkey() -> bool {
    let mut b = vec![0x02u8]; b.extend_from_slice(&[0u8; 31]); b.push(5);
    no_panic(move || match PublicKey::from_bytes(&b) { Ok(p) => { println!("accepted off-curve x"); p.to_decompressed().is_err() && false } Err(_) => true })
        && no_panic(|| PublicKey::from_bytes(&[0u8]).is_err())
}
fn c09_wif_short() -> bool { no_panic(|| PrivateKey::from_wif("1").is_err()) }
fn c07_short_address() -> bool {
    let a = P2PKHAddress::from_pubkey_hash(&[0u8; 20]).unwrap();
    let s = a.to_string().unwrap();
    println!("{} ({} chars)", s, s.len());
    P2PKHAddress::from_string(&s).is_ok()
}
fn c07_unlocking_script_testnet() -> bool {
    let key = PrivateKey::from_hex("0000000000000000000000000000000000000000000000000000000000000001").unwrap();
    let pk = key.to_public_key().unwrap();
    let addr = pk.to_p2pkh_address().unwrap().set_chain_params(&ChainParams::testnet()).unwrap();
    let mut tx = sample_tx();
    let sig = tx.sign(&key, SigHash::InputsOutputs, 0, &Script::from_hex("51").unwrap(), 1).unwrap();
    addr.get_unlocking_script(&pk, &sig).is_ok()
}
fn c12_bsm_testnet() -> bool {
    let key = PrivateKey::from_hex("0000000000000000000000000000000000000000000000000000000000000001").unwrap();
    let addr = key.to_public_key().unwrap().to_p2pkh_address().unwrap().set_chain_params(&ChainParams::testnet()).unwrap();
    let sig = BSM::sign_message(&key, b"hello").unwrap();
    BSM::verify_message(b"hello", &sig, &addr).unwrap_or(false)
}
fn c08_xprv_bad_checksum() -> bool {
    let x = ExtendedPrivateKey::from_seed(&[7u8; 32]).unwrap();
    let s = x.to_string().unwrap();
    let mut c: Vec<char> = s.chars().collect();
    let last = c.len() - 1;
    c[last] = if c[last] == '2' { '3' } else { '2' };
    let bad: String = c.into_iter().collect();
    ExtendedPrivateKey::from_string(&bad).is_err()
}
fn c09_ecies_short() -> bool { no_panic(|| ECIESCiphertext::from_bytes(&[1, 2, 3], true).is_err()) && no_panic(|| ECIESCiphertext::from_bytes(&[1, 2, 3], false).is_err()) }
fn c05_random_k_verifies() -> bool {
    let key = PrivateKey::from_hex("0000000000000000000000000000000000000000000000000000000000000002").unwrap();
    let pk = key.to_public_key().unwrap();
    let sig = ECDSA::sign_with_random_k(&key, b"msg", SigningHash::Sha256, false).unwrap();
    ECDSA::verify_digest(b"msg", &pk, &sig, SigningHash::Sha256).unwrap_or(false)
}

// ---- C15 ----
fn p2pk_tx(locking: &Script) -> (Transaction, TxIn) {
    let mut tx = Transaction::new(2, 0);
    let mut txin = TxIn::default();
    txin.set_satoshis(0);
    txin.set_locking_script(locking);
    tx.add_input(&txin);
    (tx, txin)
}
fn push(b: &[u8]) -> Vec<u8> { let mut v = vec![b.len() as u8]; v.extend_from_slice(b); v }
// a signature over the BYTE-REVERSED sha256d digest of the right preimage must not satisfy CHECKSIG
fn c15_reversed_digest_rejected() -> bool {
    let key = PrivateKey::from_wif("L2WAdy8C19GHNtZDSkbsVBJrBaF9XHpPLTgmnc2N5aGyguhJf7zh").unwrap();
    let pk = key.to_public_key().unwrap().to_bytes().unwrap();
    let mut lock = push(&pk); lock.push(0xac);
    let locking = Script::from_bytes(&lock).unwrap();
    let (mut tx, mut txin) = p2pk_tx(&locking);
    let preimage = tx.sighash_preimage(SigHash::InputsOutputs, 0, &locking, 0).unwrap();
    let mut digest = Hash::sha_256d(&preimage).to_bytes();
    digest.reverse();
    let sig = ECDSA::sign_digest_with_deterministic_k(&key, &digest).unwrap();
    let mut sigb = sig.to_der_bytes(); sigb.push(0x41);
    txin.set_unlocking_script(&Script::from_bytes(&push(&sigb)).unwrap());
    tx.set_input(0, &txin);
    let mut it = Interpreter::from_transaction(&tx, 0).unwrap();
    match no_panic_val(move || { let r = it.run(); (r.is_ok(), it.state().stack.last().cloned()) }) {
        Some((ok, top)) => { println!("run ok={} top={:?}", ok, top); !(ok && top == Some(vec![1u8])) }
        None => false,
    }
}
// a code separator position beyond the locking script (conditional spliced in front of it) must be an error, not a panic
fn c15_codeseparator_offset_beyond_script() -> bool {
    // locking: OP_1 OP_IF OP_1 OP_1 OP_1 OP_DROP OP_DROP OP_DROP OP_CODESEPARATOR OP_ENDIF <sig> <key> OP_CHECKSIG  -- offset counted in spliced elements
    let mut lock = vec![0x51, 0x63, 0x51, 0x51, 0x51, 0x75, 0x75, 0x75, 0xab, 0x68];
    lock.extend(push(&[0x30, 0x06, 0x02, 0x01, 0x01, 0x02, 0x01, 0x01, 0x41])); lock.extend(push(&[2u8; 33])); lock.push(0xac);
    let locking = Script::from_bytes(&lock).unwrap();
    let (tx, _) = p2pk_tx(&locking);
    let mut it = Interpreter::from_transaction(&tx, 0).unwrap();
    no_panic_val(move || it.run().is_err()).is_some()
}
// key / signature counts larger than the stack must be an error, not a panic
fn c15_multisig_count_beyond_stack() -> bool {
    let locking = Script::from_bytes(&[0x00, 0x55, 0xae]).unwrap();   // OP_0 OP_5 OP_CHECKMULTISIG
    let (tx, _) = p2pk_tx(&locking);
    let mut it = Interpreter::from_transaction(&tx, 0).unwrap();
    let a = matches!(no_panic_val(move || it.run().is_err()), Some(true));
    let locking = Script::from_bytes(&[0x00, 0x00, 0x55, push(&[2u8; 33])[0], ]).unwrap_or_default();
    let _ = locking;
    let mut l2 = vec![0x00, 0x53]; l2.extend(push(&[2u8; 33])); l2.extend(push(&[2u8; 33])); l2.extend(push(&[2u8; 33])); l2.extend([0x53, 0xae]); // OP_0 OP_3(sig count 3, only 1 element below) k k k OP_3 CHECKMULTISIG
    let locking2 = Script::from_bytes(&l2).unwrap();
    let (tx2, _) = p2pk_tx(&locking2);
    let mut it2 = Interpreter::from_transaction(&tx2, 0).unwrap();
    let b = matches!(no_panic_val(move || it2.run().is_err()), Some(true));
    a && b
}
// ---- C19 ----
// an input whose unlocking ++ locking script cannot be re-parsed must simply not match; it must not panic
fn c19_match_input_unparseable_script() -> bool {
    let mut tx = Transaction::new(2, 0);
    let unlocking = Script::from_script_bits(vec![ScriptBit::OpCode(OpCodes::OP_IF)]);
    let mut txin = TxIn::new(&[0x11; 32], 0, &unlocking, None);
    txin.set_locking_script(&Script::from_hex("51").unwrap());
    txin.set_satoshis(1);
    tx.add_input(&txin);
    let tmpl = ScriptTemplate::from_asm_string("OP_1").unwrap();
    let crit = MatchCriteria::new().set_script_template(&tmpl);
    println!("finalised: {:?}", txin.get_finalised_script().map(|s| s.to_asm_string()).map_err(|e| e.to_string()));
    matches!(no_panic_val(move || tx.match_input(&crit)), Some(None))
}
// ---- C17 (not claimed: string processing is outside the verifier; this probe only documents the observed defect) ----
fn c17_one_byte_push_hex_collides_with_numeric_alias() -> bool {
    let s = Script::from_bytes(&[0x01, 0x10]).unwrap();
    let asm = s.to_asm_string();
    let back = Script::from_asm_string(&asm).map(|x| x.to_bytes());
    println!("asm={:?} reparsed bytes={:?}", asm, back.as_ref().map(|b| hex(b)).map_err(|e| e.to_string()));
    back.map(|b| b == vec![0x01, 0x10]).unwrap_or(false)
}
fn run_script(hexs: &str) -> Result<Vec<String>, String> {
    let script = Script::from_hex(hexs).map_err(|e| e.to_string())?;
    let mut it = Interpreter::from_script(&script);
    it.run().map_err(|e| e.to_string())?;
    Ok(it.state().stack.iter().map(|x| hex(x)).collect())
}
fn c14_op_return() -> bool {
    // KNOWN FINDING: OP_RETURN does not end the script: the OP_1 after it is still executed
    let r = no_panic_val(|| run_script("6a51"));
    println!("OP_RETURN OP_1 -> {:?} (Bitcoin SV: execution stops at OP_RETURN, the stack stays empty)", r);
    matches!(r, Some(Ok(ref st)) if st.is_empty())
}
fn c14_lshift() -> bool {
    // KNOWN FINDING: OP_LSHIFT / OP_RSHIFT are numeric, not bitwise on the byte string
    let r = no_panic_val(|| run_script("01015898"));
    println!("01 OP_8 OP_LSHIFT -> {:?} (Bitcoin SV: the one-byte operand shifted left by 8 bits is 00)", r);
    matches!(r, Some(Ok(ref st)) if st.len() == 1 && st[0] == "00")
}
fn c14_num2bin_zero() -> bool {
    let r = no_panic_val(|| run_script("005280"));
    println!("OP_0 OP_2 OP_NUM2BIN -> {:?}", r);
    matches!(r, Some(Ok(ref st)) if st.len() == 1 && st[0] == "0000")
}
fn c14_sub_order() -> bool {
    let r = no_panic_val(|| run_script("555394"));
    println!("OP_5 OP_3 OP_SUB -> {:?}", r);
    matches!(r, Some(Ok(ref st)) if st.len() == 1 && st[0] == "02")
}
fn c14_notif() -> bool {
    let r = no_panic_val(|| run_script("0064516852")); // OP_0 OP_NOTIF OP_1 OP_ENDIF OP_2
    println!("OP_0 OP_NOTIF OP_1 OP_ENDIF OP_2 -> {:?}", r);
    matches!(r, Some(Ok(ref st)) if st.len() == 2 && st[0] == "01" && st[1] == "02")
}
fn c16_nip_empty() -> bool { matches!(no_panic_val(|| run_script("77")), Some(Err(_))) }
fn c16_div_zero() -> bool { matches!(no_panic_val(|| run_script("510096")), Some(Err(_))) }
fn no_panic_val<T, F: FnOnce() -> T + std::panic::UnwindSafe>(f: F) -> Option<T> {
    match std::panic::catch_unwind(f) { Ok(v) => Some(v), Err(_) => { println!("PANICKED"); None } }
}

fn main() {
    let args: Vec<String> = std::env::args().collect();
    let name = args.get(1).map(|s| s.as_str()).unwrap_or("");
    let ok = match name {
        "c04_set_input" => c04_set_input(),
        "c04_set_output" => c04_set_output(),
        "c02_truncated_direct_push" => c02_truncated_direct_push(),
        "c02_truncated_pushdata" => c02_truncated_pushdata(),
        "c02_pushdata_65536" => c02_pushdata_65536(),
        "c01_varint_bytes_300" => c01_varint_bytes_300(),
        "c09_txout_huge_script_len" => c09_txout_huge_script_len(),
        "c09_txout_truncated_script" => c09_txout_truncated_script(),
        "c03_hash_sequence_le" => c03_hash_sequence_le(),
        "c10_nested_codeseparator" => c10_nested_codeseparator(),
        "c10_single_index1" => c10_single_index1(),
        "c20_ctr_short_key" => c20_ctr_short_key(),
        "c09_compact_empty" => c09_compact_empty(),
        "c06_der_ending_in_flag_byte" => c06_der_ending_in_flag_byte(),
        "c09_digest_wrong_len" => c09_digest_wrong_len(),
        "c07_offcurve_pubkey" => c07_offcurve_pubkey(),
        "c09_wif_short" => c09_wif_short(),
        "c07_short_address" => c07_short_address(),
        "c07_unlocking_script_testnet" => c07_unlocking_script_testnet(),
        "c12_bsm_testnet" => c12_bsm_testnet(),
        "c08_xprv_bad_checksum" => c08_xprv_bad_checksum(),
        "c09_ecies_short" => c09_ecies_short(),
        "c05_random_k_verifies" => c05_random_k_verifies(),
        "c14_op_return" => c14_op_return(),
        "c14_lshift" => c14_lshift(),
        "c14_num2bin_zero" => c14_num2bin_zero(),
        "c14_sub_order" => c14_sub_order(),
        "c14_notif" => c14_notif(),
        "c16_nip_empty" => c16_nip_empty(),
        "c16_div_zero" => c16_div_zero(),
        "c19_match_input_unparseable_script" => c19_match_input_unparseable_script(),
        "c17_one_byte_push_hex_collides_with_numeric_alias" => c17_one_byte_push_hex_collides_with_numeric_alias(),
        "c15_reversed_digest_rejected" => c15_reversed_digest_rejected(),
        "c15_codeseparator_offset_beyond_script" => c15_codeseparator_offset_beyond_script(),
        "c15_multisig_count_beyond_stack" => c15_multisig_count_beyond_stack(),
        _ => { eprintln!("unknown probe {}", name); std::process::exit(2) }
    };
    println!("{}: {}", name, if ok { "HOLDS" } else { "FAILS" });
    std::process::exit(if ok { 0 } else { 1 });
}
