use bsv::*;
use std::panic::catch_unwind;
fn p<T>(name: &str, f: impl FnOnce() -> T + std::panic::UnwindSafe) where T: std::fmt::Debug {
    match catch_unwind(f) { Ok(v) => println!("{name}: {:?}", v), Err(_) => println!("{name}: PANIC") }
}
fn main() {
    std::panic::set_hook(Box::new(|_| {}));
    // C02
    p("script trunc push [02 01] -> bytes", || Script::from_bytes(&[2,1]).map(|s| hex::encode(s.to_bytes())).map_err(|e| e.to_string()));
    p("script trunc pushdata1 [4c 03 01] -> bytes", || Script::from_bytes(&[0x4c,3,1]).map(|s| hex::encode(s.to_bytes())).map_err(|e| e.to_string()));
    p("pushdata prefix 65536", || Script::get_pushdata_bytes(65536).map(hex::encode).map_err(|e| e.to_string()));
    p("pushdata prefix 65537", || Script::get_pushdata_bytes(65537).map(hex::encode).map_err(|e| e.to_string()));
    // C01
    p("get_varint_bytes(300)", || hex::encode(VarInt::get_varint_bytes(300)));
    p("get_varint_bytes(70000)", || hex::encode(VarInt::get_varint_bytes(70000)));
    // C09
    p("from_wif('1')", || PrivateKey::from_wif("1").map(|_| ()).map_err(|e| e.to_string()));
    p("sig from_compact []", || Signature::from_compact_bytes(&[]).map(|_| ()).map_err(|e| e.to_string()));
    p("sig from_compact [0;65]", || Signature::from_compact_bytes(&[0u8;65]).map(|_| ()).map_err(|e| e.to_string()));
    p("ecies from_bytes short", || ECIESCiphertext::from_bytes(&[1,2,3], true).map(|_| ()).map_err(|e| e.to_string()));
    p("aes ctr short key", || AES::encrypt(&[1,2,3], &[0u8;16], b"hi", AESAlgorithms::AES128_CTR).map_err(|e| e.to_string()));
    p("pubkey identity 00 decompress", || PublicKey::from_bytes(&[0]).and_then(|k| k.to_decompressed()).map(|_| ()).map_err(|e| e.to_string()));
    let mut off = vec![2u8]; off.extend([0u8;31]); off.push(5);
    let off2 = off.clone();
    p("pubkey offcurve accepted?", move || PublicKey::from_bytes(&off).map(|_| ()).map_err(|e| e.to_string()));
    p("pubkey offcurve decompress", move || PublicKey::from_bytes(&off2).and_then(|k| k.to_decompressed()).map(|_| ()).map_err(|e| e.to_string()));
    p("txout huge script len", || TxOut::from_hex("0000000000000000ffffffffffffffffff").map(|_| ()).map_err(|e| e.to_string()));
    // C07
    let h = [0u8;20];
    p("addr zero hash roundtrip", move || { let a = P2PKHAddress::from_pubkey_hash(&h).unwrap(); let s = a.to_string().unwrap(); (s.clone(), s.len(), P2PKHAddress::from_string(&s).map(|_| ()).map_err(|e| e.to_string())) });
    // C16
    p("interp OP_NIP empty", || { let s = Script::from_asm_string("OP_NIP").unwrap(); let mut i = Interpreter::from_script(&s); i.run().map_err(|e| e.to_string()) });
    p("interp 1 0 OP_DIV", || { let s = Script::from_asm_string("OP_1 OP_0 OP_DIV").unwrap(); let mut i = Interpreter::from_script(&s); i.run().map_err(|e| e.to_string()) });
    // C14 
    p("interp 5 3 OP_SUB -> stack", || { let s = Script::from_asm_string("OP_5 OP_3 OP_SUB").unwrap(); let mut i = Interpreter::from_script(&s); i.run().map_err(|e| e.to_string()).map(|_| i.state().stack) });
    // C17
    p("asm roundtrip push [0x10]", || { let s = Script::from_bytes(&[1,0x10]).unwrap(); let a = s.to_asm_string(); (a.clone(), hex::encode(Script::from_asm_string(&a).unwrap().to_bytes())) });
    // C06
    p("der ending in 01", || { 
        let k = PrivateKey::from_hex("0000000000000000000000000000000000000000000000000000000000000001").unwrap();
        let mut n = 0u32; 
        loop { let sig = k.sign_message(&n.to_le_bytes()).unwrap(); let der = sig.to_der_bytes(); 
            let last = *der.last().unwrap(); if [1u8,2,3,0x40,0x41,0x42,0x43,0x80,0x81,0x82,0x83,0xc1,0xc2,0xc3].contains(&last) { return (n, hex::encode(&der), Signature::from_der(&der).map(|_| ()).map_err(|e| e.to_string())); } n+=1; }
    });
    // C05 random k
    p("random k verifies", || { let k = PrivateKey::from_random(); let sig = ECDSA::sign_with_random_k(&k, b"hello", SigningHash::Sha256, false).unwrap(); ECDSA::verify_digest(b"hello", &k.to_public_key().unwrap(), &sig, SigningHash::Sha256).map_err(|e| e.to_string()) });
    // C12 testnet
    p("bsm testnet", || { let k = PrivateKey::from_random(); let sig = BSM::sign_message(&k, b"hi").unwrap(); let a = k.to_public_key().unwrap().to_p2pkh_address().unwrap().set_chain_params(&ChainParams::testnet()).unwrap(); BSM::verify_message(b"hi", &sig, &a).map_err(|e| e.to_string()) });
    // C08 checksum
    p("xprv corrupted checksum", || { let x = ExtendedPrivateKey::from_seed(&[7u8;32]).unwrap(); let s = x.to_string().unwrap(); let mut c: Vec<char> = s.chars().collect(); let l = c.len(); c[l-1] = if c[l-1]=='1' {'2'} else {'1'}; let s2: String = c.into_iter().collect(); ExtendedPrivateKey::from_string(&s2).map(|k| k.to_string().unwrap() == s).map_err(|e| e.to_string()) });
}
