use vstd::prelude::*;
verus! {

// ------- shim of `digest` / `sha2` / generic_array (assumed contracts) -------
pub uninterp spec fn spec_sha256(s: Seq<u8>) -> Seq<u8>;
pub struct U32; pub struct U64;
pub struct GenericArray<T, N> { pub data: Vec<T>, pub _n: core::marker::PhantomData<N> }
impl<N> GenericArray<u8, N> {
    pub open spec fn view(&self) -> Seq<u8> { self.data@ }
    #[verifier::external_body]
    pub fn reverse(&mut self) ensures final(self)@ == old(self)@.reverse() { unimplemented!() }
    #[verifier::external_body]
    pub fn copy_from_slice(&mut self, src: &GenericArray<u8, N>) 
        ensures final(self)@ == src@ { unimplemented!() }
}
impl<N> Default for GenericArray<u8, N> { #[verifier::external_body] fn default() -> Self { unimplemented!() } }

pub struct Sha256 { pub absorbed: Ghost<Seq<u8>> }
impl Clone for Sha256 { #[verifier::external_body] fn clone(&self) -> (r: Self) ensures r.absorbed@ == self.absorbed@ { unimplemented!() } }
impl Default for Sha256 { #[verifier::external_body] fn default() -> (r: Self) ensures r.absorbed@ == Seq::<u8>::empty() { unimplemented!() } }

pub trait FixedOutput: Sized {
    type OutputSize;
    fn finalize_into(self, out: &mut GenericArray<u8, Self::OutputSize>);
}
pub trait Update { 
    spec fn absorbed_(&self) -> Seq<u8>;
    fn update(&mut self, data: &[u8]) ensures final(self).absorbed_() == old(self).absorbed_() + data@; 
}
impl Update for Sha256 {
    open spec fn absorbed_(&self) -> Seq<u8> { self.absorbed@ }
    #[verifier::external_body] fn update(&mut self, data: &[u8]) { unimplemented!() } 
}
impl Sha256 {
    #[verifier::external_body]
    pub fn finalize(self) -> (r: GenericArray<u8, U32>) ensures r@ == spec_sha256(self.absorbed@) { unimplemented!() }
    #[verifier::external_body]
    pub fn digest(data: &GenericArray<u8, U32>) -> (r: GenericArray<u8, U32>) ensures r@ == spec_sha256(data@) { unimplemented!() }
}

// ------- real code (src/hash/sha256d_digest.rs), verbatim bodies -------
pub struct Sha256d {
    pub engine: Sha256,
    pub reverse: bool,
}

impl FixedOutput for Sha256d {
    type OutputSize = U32;

    fn finalize_into(self, out: &mut GenericArray<u8, Self::OutputSize>) 
        ensures final(out)@ == (if self.reverse { spec_sha256(spec_sha256(self.engine.absorbed@)).reverse() } else { spec_sha256(spec_sha256(self.engine.absorbed@)) })
    {
        let first_hash = &self.engine.finalize();
        let mut finished_hash = Sha256::digest(first_hash);
        // let mut vec = finished_hash.to_vec();

        if self.reverse {
            finished_hash.reverse()
        }

        out.copy_from_slice(&finished_hash)
    }
}

} // verus!
fn main() {}
