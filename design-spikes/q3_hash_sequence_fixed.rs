use vstd::prelude::*;
macro_rules! format { ($fmt:expr $(, $arg:expr)* $(,)?) => { { $(let _ = &$arg;)* fmt_opaque_v() } }; }
verus! {
// ================= shim prelude (assumed contracts) =================
#[verifier::external_body] pub fn fmt_opaque_v() -> String { String::new() }
pub struct IoError;
pub enum BSVErrors { OutOfBounds(String), FromSighash(String), Io(IoError) }
impl From<IoError> for BSVErrors { #[verifier::external_body] fn from(e: IoError) -> Self { BSVErrors::Io(e) } }
pub assume_specification<T: Clone> [<[T]>::to_vec] (s: &[T]) -> (r: Vec<T>) ensures r@ == s@;

pub assume_specification<T> [<[T]>::reverse] (s: &mut [T]) ensures final(s)@ == old(s)@.reverse();

pub open spec fn le32(x: u32) -> Seq<u8> { seq![ x as u8, (x>>8) as u8, (x>>16) as u8, (x>>24) as u8 ] }
pub open spec fn le64(x: u64) -> Seq<u8> { seq![ x as u8, (x>>8) as u8, (x>>16) as u8, (x>>24) as u8, (x>>32) as u8, (x>>40) as u8, (x>>48) as u8, (x>>56) as u8 ] }
pub open spec fn be32(x: u32) -> Seq<u8> { seq![ (x>>24) as u8, (x>>16) as u8, (x>>8) as u8, x as u8 ] }
pub uninterp spec fn varint(n: u64) -> Seq<u8>;   // canonical compact size; defined + Kani-proved in unit tx_wire
pub uninterp spec fn spec_sha256d(s: Seq<u8>) -> Seq<u8>;
pub uninterp spec fn ser_script(s: Script) -> Seq<u8>;  // = ser_bits(s.0@), proved in unit script_ser

pub struct LittleEndian;
pub trait WriteBytesExt {
    spec fn wview(&self) -> Seq<u8>;
    fn write_u32<T>(&mut self, n: u32) -> (r: Result<(), IoError>) ensures r is Ok, final(self).wview() == old(self).wview() + le32(n);
    fn write_u64<T>(&mut self, n: u64) -> (r: Result<(), IoError>) ensures r is Ok, final(self).wview() == old(self).wview() + le64(n);
    fn write_all(&mut self, b: &[u8]) -> (r: Result<(), IoError>) ensures r is Ok, final(self).wview() == old(self).wview() + b@;
    fn write_varint(&mut self, n: u64) -> (r: Result<usize, IoError>) ensures r is Ok, final(self).wview() == old(self).wview() + varint(n);
}
impl WriteBytesExt for Vec<u8> {
    open spec fn wview(&self) -> Seq<u8> { self@ }
    #[verifier::external_body] fn write_u32<T>(&mut self, n: u32) -> (r: Result<(), IoError>) { unimplemented!() }
    #[verifier::external_body] fn write_u64<T>(&mut self, n: u64) -> (r: Result<(), IoError>) { unimplemented!() }
    #[verifier::external_body] fn write_all(&mut self, b: &[u8]) -> (r: Result<(), IoError>) { unimplemented!() }
    #[verifier::external_body] fn write_varint(&mut self, n: u64) -> (r: Result<usize, IoError>) { unimplemented!() }
}
pub trait ExtendV<I> { fn extend_v(&mut self, it: I); }
impl ExtendV<Vec<u8>> for Vec<u8> { #[verifier::external_body] fn extend_v(&mut self, it: Vec<u8>) ensures final(self)@ == old(self)@ + it@ { self.extend(it) } }
pub trait BeBytesV { type Out; fn to_be_bytes_v(self) -> Self::Out; }
impl BeBytesV for u32 { type Out = [u8;4]; #[verifier::external_body] fn to_be_bytes_v(self) -> (r: [u8;4]) ensures r@ == be32(self) { self.to_be_bytes() } }
pub trait LeBytesV { type Out; fn to_le_bytes_v(self) -> Self::Out; }
impl LeBytesV for u32 { type Out = [u8;4]; #[verifier::external_body] fn to_le_bytes_v(self) -> (r: [u8;4]) ensures r@ == le32(self) { self.to_le_bytes() } }

// ================= extracted types (attributes dropped, fields pub) =================
pub struct Script(pub Vec<u8>); // stand-in for this spike only
impl Clone for Script { #[verifier::external_body] fn clone(&self) -> (r: Self) ensures r == *self { unimplemented!() } }
impl Script { #[verifier::external_body] pub fn to_bytes(&self) -> (r: Vec<u8>) ensures r@ == ser_script(*self) { unimplemented!() } }

pub struct Hash(pub Vec<u8>);
impl Clone for Hash { #[verifier::external_body] fn clone(&self) -> (r: Self) ensures r == *self { unimplemented!() } }
impl Hash {
    #[verifier::external_body] pub fn sha_256d(input: &[u8]) -> (r: Hash) ensures r.0@ == spec_sha256d(input@) { unimplemented!() }
    pub fn to_bytes(&self) -> (r: Vec<u8>) ensures r@ == self.0@ { self.0.clone() }
}
#[derive(Clone, Copy, PartialEq, Eq)]
#[allow(non_camel_case_types)]
pub enum SigHash { FORKID = 0x40, ALL = 0x01, NONE = 0x02, SINGLE = 0x03, ANYONECANPAY = 0x80,
    InputsOutputs = 0x41, Inputs = 0x42, InputsOutput = 0x43, InputOutputs = 0xc1, Input = 0xc2, InputOutput = 0xc3,
    Legacy_InputOutputs = 0x81, Legacy_Input = 0x82, Legacy_InputOutput = 0x83 }
impl SigHash { #[verifier::external_body] pub fn to_u32(&self) -> (r: Option<u32>) ensures r == Some((*self as u8) as u32) { unimplemented!() } }

pub struct HashCache { pub hash_inputs: Option<Hash>, pub hash_sequence: Option<Hash>, pub hash_outputs: Option<Hash> }
pub struct TxIn { pub prev_tx_id: Vec<u8>, pub vout: u32, pub unlocking_script: Script, pub sequence: u32, pub locking_script: Option<Script>, pub satoshis: Option<u64> }
impl Clone for TxIn { #[verifier::external_body] fn clone(&self) -> (r: Self) ensures r == *self { unimplemented!() } }
pub struct TxOut { pub value: u64, pub script_pub_key: Script }
impl Clone for TxOut { #[verifier::external_body] fn clone(&self) -> (r: Self) ensures r == *self { unimplemented!() } }
pub struct Transaction { pub version: u32, pub inputs: Vec<TxIn>, pub outputs: Vec<TxOut>, pub n_locktime: u32, pub hash_cache: HashCache }

// ================= spec (written from the replay-protected sighash specification) =================
pub open spec fn outpoint(i: TxIn) -> Seq<u8> { i.prev_tx_id@.reverse() + le32(i.vout) }
pub open spec fn ser_out(o: TxOut) -> Seq<u8> { le64(o.value) + varint(ser_script(o.script_pub_key).len() as u64) + ser_script(o.script_pub_key) }
pub open spec fn cat_outpoints(s: Seq<TxIn>) -> Seq<u8> decreases s.len() { if s.len() == 0 { seq![] } else { cat_outpoints(s.drop_last()) + outpoint(s.last()) } }
pub open spec fn cat_sequences(s: Seq<TxIn>) -> Seq<u8> decreases s.len() { if s.len() == 0 { seq![] } else { cat_sequences(s.drop_last()) + le32(s.last().sequence) } }
pub open spec fn cat_outputs(s: Seq<TxOut>) -> Seq<u8> decreases s.len() { if s.len() == 0 { seq![] } else { cat_outputs(s.drop_last()) + ser_out(s.last()) } }
pub open spec fn zeros32() -> Seq<u8> { Seq::new(32, |i: int| 0u8) }
pub open spec fn flag_u8(f: SigHash) -> u8 { f as u8 }
pub open spec fn acp(f: SigHash) -> bool { f is ANYONECANPAY || f is InputOutputs || f is Input || f is InputOutput || f is Legacy_InputOutputs || f is Legacy_Input || f is Legacy_InputOutput }
pub open spec fn base(f: SigHash) -> u8 { if f is ALL || f is InputsOutputs || f is InputOutputs || f is Legacy_InputOutputs { 1 } else if f is NONE || f is Inputs || f is Input || f is Legacy_Input { 2 } else if f is SINGLE || f is InputsOutput || f is InputOutput || f is Legacy_InputOutput { 3 } else { 0 } }
pub open spec fn forkid6(f: SigHash) -> bool { f is InputsOutputs || f is Inputs || f is InputsOutput || f is InputOutputs || f is Input || f is InputOutput }
pub open spec fn spec_hash_prevouts(tx: Transaction, f: SigHash) -> Seq<u8> { if acp(f) { zeros32() } else { spec_sha256d(cat_outpoints(tx.inputs@)) } }
pub open spec fn spec_hash_sequence(tx: Transaction, f: SigHash) -> Seq<u8> { if !acp(f) && base(f) != 2 && base(f) != 3 { spec_sha256d(cat_sequences(tx.inputs@)) } else { zeros32() } }

impl Transaction {
    pub open spec fn seq_slot_ok(&self) -> bool { match self.hash_cache.hash_sequence { Some(h) => h.0@ == spec_sha256d(cat_sequences(self.inputs@)), None => true } }
    pub open spec fn prev_slot_ok(&self) -> bool { match self.hash_cache.hash_inputs { Some(h) => h.0@ == spec_sha256d(cat_outpoints(self.inputs@)), None => true } }
}

// ================= extracted functions (bodies verbatim; R1, R4 applied) =================
impl TxIn {
    pub fn get_prev_tx_id(&self, little_endian: Option<bool>) -> (r: Vec<u8>)
        ensures r@ == (if little_endian == Some(true) { self.prev_tx_id@.reverse() } else { self.prev_tx_id@ })
    {
        match little_endian {
            Some(true) => {
                let mut reversed_tx = self.prev_tx_id.clone();
                reversed_tx.reverse();
                reversed_tx
            }
            _ => self.prev_tx_id.clone(),
        }
    }
    pub fn get_sequence_as_bytes(&self) -> (r: Vec<u8>) ensures r@ == be32(self.sequence) {
        self.sequence.to_be_bytes_v().to_vec()
    }
    pub fn get_outpoint_bytes(&self, little_endian: Option<bool>) -> (r: Vec<u8>)
        ensures little_endian == Some(true) ==> r@ == outpoint(*self)
    {
        let mut outpoint_bytes = self.get_prev_tx_id(little_endian);
        outpoint_bytes.extend_from_slice(&self.vout.to_le_bytes_v());
        outpoint_bytes
    }
}

impl Transaction {
    fn hash_sequence(&mut self, sighash: SigHash) -> (r: Vec<u8>)
        requires old(self).seq_slot_ok()
        ensures forkid6(sighash) ==> r@ == spec_hash_sequence(*old(self), sighash), final(self).seq_slot_ok(),
            final(self).inputs == old(self).inputs, final(self).outputs == old(self).outputs, final(self).version == old(self).version,
            final(self).n_locktime == old(self).n_locktime, final(self).hash_cache.hash_inputs == old(self).hash_cache.hash_inputs,
            final(self).hash_cache.hash_outputs == old(self).hash_cache.hash_outputs
    {
        match sighash {
            SigHash::ALL | SigHash::InputsOutputs => {
                if let Some(x) = &self.hash_cache.hash_sequence {
                    return x.to_bytes();
                }
                let input_sequences: Vec<u8> = { let mut acc: Vec<u8> = Vec::new(); let mut idx: usize = 0;
                    while idx < self.inputs.len()
                        invariant idx <= self.inputs.len(), acc@ == cat_sequences(self.inputs@.take(idx as int)), *self == *old(self)
                        decreases self.inputs.len() - idx
                    { let x = &self.inputs[idx]; let item = x.sequence.to_le_bytes_v().to_vec(); acc.extend_v(item); idx += 1;
                      proof { assert(self.inputs@.take(idx as int).drop_last() == self.inputs@.take(idx - 1)); } }
                    proof { assert(self.inputs@.take(self.inputs.len() as int) == self.inputs@); }
                    acc };
                let hash = Hash::sha_256d(&input_sequences);
                self.hash_cache.hash_sequence = Some(hash.clone());
                hash.to_bytes()
            }
            _ => { let z = [0; 32].to_vec(); proof { assert(z@ =~= zeros32()); } z }
        }
    }
}
} // verus!
fn main() {}
