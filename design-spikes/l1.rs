use vstd::prelude::*;
verus! {
pub enum E { A(u8), B }
pub fn f1(r: Result<u32, E>) -> (o: Result<u64, E>) 
    ensures r is Ok ==> (o is Ok && o->Ok_0 == r->Ok_0 as u64)
{ r.map(|x| x as u64) }
pub fn f2(r: Result<u32, u8>) -> (o: Result<u32, E>) ensures r is Ok ==> o is Ok { r.map_err(|e| E::A(e)) }
pub fn f3(r: Result<u32, u8>) -> (o: Result<u32, E>) { r.map_err(|e| E::A(e)) }
pub fn f4(r: Option<u32>) -> (o: Option<u64>) { r.map(|x| x as u64) }
pub fn f5(r: Option<u32>) -> (o: Option<u32>) { r.and_then(|v| if v > 3 { Some(v) } else { None }) }
pub fn f6(r: Result<u32, E>) -> (o: Result<bool, E>) ensures r is Ok ==> o == Ok::<bool,E>(true) { r.map(|_v0| true) }
pub fn f7(a: Option<u64>, b: Option<u64>) -> bool { a.is_some() && a > b }
pub fn f8(a: Option<u64>, b: u64) -> bool { a != Some(b) }
pub fn f9(v: &Vec<u8>) -> Option<u8> { v.last().cloned() }
pub fn f10(a: Option<u8>) -> u8 { a.unwrap_or_default() }
pub fn f11(a: &Vec<u8>, b: &Vec<u8>) -> bool { a == b }
pub fn f12(a: Option<u64>) -> bool { matches!(&a, Some(c) if *c > 3) }
} // verus!
fn main() {}
