use vstd::prelude::*;
verus! {
pub fn f(v: &mut Vec<u8>) -> (r: Result<u8, ()>) { match v.pop() { Some(x) => Ok(x), None => Err(()) } }
pub fn b(v: &mut Vec<u8>) -> (n: usize) {
    let mut n = 0usize;
    while let Ok(byte) = f(v) 
        invariant n <= 1000 
        decreases v.len()
    {
        if n < 1000 { n += 1; }
    }
    n
}
} // verus!
fn main() {}
