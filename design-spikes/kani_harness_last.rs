#[cfg(kani)]
mod h {
    use bsv::Script;
    fn fake_format(_a: std::fmt::Arguments<'_>) -> String { String::new() }

    #[kani::proof]
    #[kani::unwind(8)]
    #[kani::stub(alloc::fmt::format, fake_format)]
    fn script_roundtrip_le2() {
        let n: usize = kani::any();
        kani::assume(n <= 2);
        let buf: [u8; 2] = kani::any();
        let b = &buf[..n];
        if let Ok(s) = Script::from_bytes(b) {
            let out = s.to_bytes();
            assert!(out.len() == n);
            let mut i = 0;
            while i < n { assert!(out[i] == b[i]); i += 1; }
        }
    }
}
