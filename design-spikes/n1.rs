use vstd::prelude::*;
macro_rules! vec {
    ($e:expr; $n:expr) => { alloc_fill_v($e, $n) };
    ($($x:expr),* $(,)?) => { std::vec![$($x),*] };
}
macro_rules! println { ($($t:tt)*) => { () }; }
verus! {
pub uninterp spec fn input_len() -> nat;

#[verifier::external_body]
pub fn alloc_fill_v(e: u8, n: usize) -> (r: Vec<u8>)
    requires n <= 2 * input_len() + 64
    ensures r@.len() == n, forall|i: int| 0 <= i < n ==> r@[i] == e
{ std::vec::from_elem(e, n) }

pub struct IoError;
impl std::fmt::Display for IoError { #[verifier::external_body] fn fmt(&self, f: &mut std::fmt::Formatter<'_>) -> std::fmt::Result { unimplemented!() } }
pub enum E { D(String) }

pub fn dec(bytes: &[u8], declared: u64) -> (r: Result<Vec<u8>, E>)
    requires bytes@.len() == input_len()
{
    let mut data = vec![0; declared as usize];
    let small = vec![1u8, 2, 3];
    Ok(data)
}
pub fn dec2(bytes: &[u8], declared: u64, e: IoError) -> (r: Result<Vec<u8>, E>)
    requires bytes@.len() == input_len()
{
    if declared as usize > bytes.len() { return Err(E::D(format!("too long {}", e))); }
    println!("x {}", declared);
    let mut data = vec![0; declared as usize];
    Ok(data)
}
pub trait HD { fn fin(self) -> u8; }
pub struct A; impl HD for A { fn fin(self) -> u8 { 1 } }
pub fn get(flag: bool) -> impl HD { A }
pub fn useit() -> u8 { get(true).fin() }
} // verus!
fn main() {}
