use vstd::prelude::*;
verus! {

#[derive(Clone, Copy, PartialEq, Eq)]
#[allow(non_camel_case_types)]
pub enum OpCodes { OP_0 = 0, OP_PUSHDATA1 = 76, OP_PUSHDATA2 = 77, OP_PUSHDATA4 = 78, OP_IF = 99, OP_ELSE = 103, OP_ENDIF = 104, OP_NOP = 97 }

pub enum ScriptBit {
    OpCode(OpCodes),
    If { code: OpCodes, pass: Vec<ScriptBit>, fail: Option<Vec<ScriptBit>> },
    Push(Vec<u8>),
    PushData(OpCodes, Vec<u8>),
    Coinbase(Vec<u8>),
}
pub enum BSVErrors { DeserialiseScript(String), Io(IoError) }
pub struct IoError;
impl From<IoError> for BSVErrors { #[verifier::external_body] fn from(e: IoError) -> Self { BSVErrors::Io(e) } }

impl OpCodes {
    #[verifier::external_body]
    pub fn from_u8(b: u8) -> (r: Option<OpCodes>)
        ensures match r { Some(c) => c as u8 == b, None => b != 0 && b != 76 && b != 77 && b != 78 && b != 99 && b != 103 && b != 104 && b != 97 }
    { unimplemented!() }
}

pub struct LittleEndian;
pub struct Cursor<T> { pub inner: T, pub pos: u64 }
impl<'a> Cursor<&'a [u8]> {
    pub open spec fn rest(&self) -> Seq<u8> { if self.pos as int <= self.inner@.len() { self.inner@.skip(self.pos as int) } else { seq![] } }
    #[verifier::external_body]
    pub fn new(inner: &'a [u8]) -> (r: Self) ensures r.inner@ == inner@, r.pos == 0 { unimplemented!() }
    #[verifier::external_body]
    pub fn read_u8(&mut self) -> (r: Result<u8, IoError>)
        ensures final(self).inner@ == old(self).inner@,
            match r { Ok(b) => old(self).rest().len() >= 1 && b == old(self).rest()[0] && final(self).rest() == old(self).rest().skip(1),
                      Err(_) => old(self).rest().len() == 0 && final(self).rest() == old(self).rest() }
    { unimplemented!() }
    #[verifier::external_body]
    pub fn read(&mut self, buf: &mut Vec<u8>) -> (r: Result<usize, IoError>)
        ensures final(self).inner@ == old(self).inner@, r is Ok,
            ({ let n = if old(self).rest().len() < old(buf)@.len() { old(self).rest().len() } else { old(buf)@.len() };
               r->Ok_0 == n && final(buf)@ == old(self).rest().take(n as int) + old(buf)@.skip(n as int) && final(self).rest() == old(self).rest().skip(n as int) })
    { unimplemented!() }
}
pub assume_specification<T: Clone> [<[T]>::to_vec] (s: &[T]) -> (r: Vec<T>) ensures r@ == s@;

pub fn from_bytes(bytes: &[u8]) -> Result<Vec<ScriptBit>, BSVErrors> {
        let mut cursor = Cursor::new(bytes);

        let mut bit_accumulator = vec![];
        while let Ok(byte) = cursor.read_u8() 
            decreases cursor.rest().len()
        {
            if byte.ne(&(OpCodes::OP_0 as u8)) && byte.lt(&(OpCodes::OP_PUSHDATA1 as u8)) {
                let mut data: Vec<u8> = vec![0; byte as usize];
                match cursor.read(&mut data) {
                    Ok(len) => bit_accumulator.push(ScriptBit::Push(data[..len].to_vec())),
                    Err(e) => return Err(BSVErrors::DeserialiseScript(format!("Failed to read OP_PUSH data {}", 1))),
                }
                continue;
            }

            let bit = match OpCodes::from_u8(byte) {
                Some(v @ (OpCodes::OP_PUSHDATA1 | OpCodes::OP_PUSHDATA2 | OpCodes::OP_PUSHDATA4)) => {
                    let data_length = match v {
                        OpCodes::OP_PUSHDATA1 => cursor.read_u8()? as usize,
                        _ => cursor.read_u8()? as usize,
                    };

                    let mut data = vec![0; data_length];
                    if let Err(e) = cursor.read(&mut data) {
                        return Err(BSVErrors::DeserialiseScript(format!("Failed to read OP_PUSHDATA data {}", 1)));
                    }

                    ScriptBit::PushData(v, data)
                }
                Some(v) => ScriptBit::OpCode(v),
                None => return Err(BSVErrors::DeserialiseScript(format!("Unknown opcode {}", byte))),
            };

            bit_accumulator.push(bit);
        }
        Ok(bit_accumulator)
}

} // verus!
fn main() {}
