use vstd::prelude::*;
verus! {

pub struct Hash(pub Vec<u8>);

impl Clone for Hash {
    #[verifier::external_body]
    fn clone(&self) -> (r: Self)
        ensures r.0@ == self.0@
    { Hash(self.0.clone()) }
}

pub uninterp spec fn spec_sha256d(s: Seq<u8>) -> Seq<u8>;

impl Hash {
    #[verifier::external_body]
    pub fn sha_256d(input: &[u8]) -> (r: Hash)
        ensures r.0@ == spec_sha256d(input@)
    { unimplemented!() }

    pub fn to_bytes(&self) -> (r: Vec<u8>)
        ensures r@ == self.0@
    {
        self.0.clone()
    }
}

pub struct HashCache {
    pub hash_inputs: Option<Hash>,
    pub hash_sequence: Option<Hash>,
    pub hash_outputs: Option<Hash>,
}

pub struct TxIn {
    pub prev_tx_id: Vec<u8>,
    pub vout: u32,
    pub sequence: u32,
}

impl Clone for TxIn {
    #[verifier::external_body]
    fn clone(&self) -> (r: Self)
        ensures r == *self
    { unimplemented!() }
}

pub struct Transaction {
    pub version: u32,
    pub inputs: Vec<TxIn>,
    pub n_locktime: u32,
    pub hash_cache: HashCache,
}

pub open spec fn seq_bytes(inputs: Seq<TxIn>) -> Seq<u8>
    decreases inputs.len()
{
    if inputs.len() == 0 { seq![] } else {
        seq_bytes(inputs.drop_last()) + seq![ (inputs.last().sequence & 0xff) as u8 ]
    }
}

impl Transaction {
    pub open spec fn inv(&self) -> bool {
        match self.hash_cache.hash_sequence {
            Some(h) => h.0@ == spec_sha256d(seq_bytes(self.inputs@)),
            None => true,
        }
    }

    pub fn add_input(&mut self, input: &TxIn)
        requires old(self).inv()
        ensures final(self).inv(), final(self).inputs@ == old(self).inputs@.push(*input)
    {
        self.inputs.push(input.clone());
        // Transaction has been changed, need to recalculate inputs hashes
        self.hash_cache.hash_inputs = None;
        self.hash_cache.hash_sequence = None;
    }

    pub fn set_input(&mut self, index: usize, input: &TxIn)
        requires old(self).inv(), index < old(self).inputs.len()
        ensures final(self).inv()
    {
        self.inputs[index] = input.clone();
    }
}

} // verus!
fn main() {}
