use vstd::prelude::*;
verus! {
pub uninterp spec fn spec_sha256(s: Seq<u8>) -> Seq<u8>;
pub struct GA { pub data: Vec<u8> }
impl core::ops::Deref for GA { type Target = [u8];
    #[verifier::external_body]
    fn deref(&self) -> (r: &[u8]) ensures r@ == self.data@ { unimplemented!() } }
impl core::ops::DerefMut for GA {
    #[verifier::external_body]
    fn deref_mut(&mut self) -> (r: &mut [u8]) { unimplemented!() } }

pub trait AsBytesV { spec fn bytes_v(&self) -> Seq<u8>; }
impl AsBytesV for &[u8] { open spec fn bytes_v(&self) -> Seq<u8> { self@ } }
impl AsBytesV for &GA { open spec fn bytes_v(&self) -> Seq<u8> { self.data@ } }

#[verifier::external_body]
pub fn digest<D: AsBytesV>(data: D) -> (r: GA) ensures r.data@ == spec_sha256(data.bytes_v()) { unimplemented!() }

pub fn t(g: GA) -> (r: GA) ensures r.data@ == spec_sha256(g.data@) {
    let first_hash = &*g;
    digest(first_hash)
}
pub fn t2(g: GA) -> (r: Vec<u8>) ensures r@ == g.data@ {
    (*g).to_vec()
}
pub assume_specification<T: Clone> [<[T]>::to_vec] (s: &[T]) -> (r: Vec<T>) ensures r@ == s@;
} // verus!
fn main() {}
