use vstd::prelude::*;
verus! {

#[derive(Clone, Copy, PartialEq, Eq)]
pub enum OpCodes { OP_0 = 0, OP_PUSHDATA1 = 76, OP_ELSE = 103 }

pub fn a(code: &OpCodes) -> (r: u8) 
    ensures r == (match *code { OpCodes::OP_0 => 0u8, OpCodes::OP_PUSHDATA1 => 76u8, OpCodes::OP_ELSE => 103u8 })
{
    *code as u8
}

} // verus!
fn main() {}
