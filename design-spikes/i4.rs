use vstd::prelude::*;
verus! {

#[derive(Clone, Copy, PartialEq, Eq)]
#[allow(non_camel_case_types)]
pub enum OpCodes { OP_0 = 0, OP_IF = 99, OP_NOTIF = 100, OP_VERIF = 101, OP_VERNOTIF = 102, OP_ELSE = 103, OP_ENDIF = 104, OP_NOP = 97 }

pub enum ScriptBit {
    OpCode(OpCodes),
    If { code: OpCodes, pass: Vec<ScriptBit>, fail: Option<Vec<ScriptBit>> },
    Push(Vec<u8>),
}
impl Clone for ScriptBit {
    #[verifier::external_body]
    fn clone(&self) -> (r: Self) ensures r == *self { unimplemented!() }
}
pub struct Iter<'a, T> { pub seq: &'a [T], pub pos: usize }
impl<'a, T> Iter<'a, T> {
    #[verifier::external_body]
    pub fn next(&mut self) -> (r: Option<&'a T>)
        requires old(self).pos <= old(self).seq@.len()
        ensures final(self).seq == old(self).seq,
            match r { Some(x) => old(self).pos < old(self).seq@.len() && *x == old(self).seq@[old(self).pos as int] && final(self).pos == old(self).pos + 1,
                      None => old(self).pos == old(self).seq@.len() && final(self).pos == old(self).pos }
    { unimplemented!() }
}
pub enum BSVErrors { DeserialiseScript(String) }
pub struct Script(pub Vec<ScriptBit>);

impl Script {
    fn read_pass(bits_iter: &mut Iter<ScriptBit>) -> (r: Result<(Vec<ScriptBit>, bool), BSVErrors>)
        requires old(bits_iter).pos <= old(bits_iter).seq@.len()
        ensures final(bits_iter).seq == old(bits_iter).seq, old(bits_iter).pos <= final(bits_iter).pos <= old(bits_iter).seq@.len(),
            r is Ok ==> final(bits_iter).pos > old(bits_iter).pos
        decreases old(bits_iter).seq@.len() - old(bits_iter).pos, 0int
    {
        let mut nested_bits = vec![];
        while let Some(thing) = bits_iter.next() 
            invariant bits_iter.seq == old(bits_iter).seq, old(bits_iter).pos <= bits_iter.pos <= bits_iter.seq@.len(),
            decreases bits_iter.seq@.len() - bits_iter.pos
        {
            match thing {
                ScriptBit::OpCode(v @ (OpCodes::OP_IF | OpCodes::OP_NOTIF | OpCodes::OP_VERIF | OpCodes::OP_VERNOTIF)) => Script::read_if_statement(bits_iter, &mut nested_bits, v)?,
                ScriptBit::OpCode(OpCodes::OP_ELSE) => return Ok((nested_bits, false)),
                ScriptBit::OpCode(OpCodes::OP_ENDIF) => return Ok((nested_bits, true)),
                o => nested_bits.push(o.clone()),
            }
        }

        Err(BSVErrors::DeserialiseScript("OP_IF branch requires an OP_ELSE or OP_ENDIF code".into()))
    }

    fn read_if_statement(bits_iter: &mut Iter<ScriptBit>, nested_bits: &mut Vec<ScriptBit>, v: &OpCodes) -> (r: Result<(), BSVErrors>)
        requires old(bits_iter).pos <= old(bits_iter).seq@.len()
        ensures final(bits_iter).seq == old(bits_iter).seq, old(bits_iter).pos <= final(bits_iter).pos <= old(bits_iter).seq@.len(),
        decreases old(bits_iter).seq@.len() - old(bits_iter).pos, 1int
    {
        let (pass_bits, ended) = Script::read_pass(bits_iter)?;
        nested_bits.push(ScriptBit::If {
            code: *v,
            // Read until OP_ELSE or OP_ENDIF
            pass: pass_bits,
            // Read until OP_ENDIF
            fail: match ended {
                true => None,
                false => None,
            },
        });
        Ok(())
    }
}

} // verus!
fn main() {}
