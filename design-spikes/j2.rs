use vstd::prelude::*;
verus! {
pub struct BigInt { pub v: Ghost<int> }
impl BigInt { pub open spec fn val(&self) -> int { self.v@ } }

impl vstd::std_specs::ops::AddSpecImpl for BigInt {
    open spec fn obeys_add_spec() -> bool { true }
    open spec fn add_req(self, rhs: BigInt) -> bool { true }
    open spec fn add_spec(self, rhs: BigInt) -> BigInt { BigInt { v: Ghost(self.val() + rhs.val()) } }
}
impl vstd::std_specs::ops::AddSpecImpl<i32> for BigInt {
    open spec fn obeys_add_spec() -> bool { true }
    open spec fn add_req(self, rhs: i32) -> bool { true }
    open spec fn add_spec(self, rhs: i32) -> BigInt { BigInt { v: Ghost(self.val() + rhs) } }
}
impl std::ops::Add for BigInt { type Output = BigInt;
    #[verifier::external_body]
    fn add(self, rhs: BigInt) -> (r: BigInt) { unimplemented!() } }
impl std::ops::Add<i32> for BigInt { type Output = BigInt;
    #[verifier::external_body]
    fn add(self, rhs: i32) -> (r: BigInt) { unimplemented!() } }
impl vstd::std_specs::ops::DivSpecImpl for BigInt {
    open spec fn obeys_div_spec() -> bool { true }
    open spec fn div_req(self, rhs: BigInt) -> bool { rhs.val() != 0 }
    open spec fn div_spec(self, rhs: BigInt) -> BigInt { BigInt { v: Ghost(self.val() / rhs.val()) } }
}
impl std::ops::Div for BigInt { type Output = BigInt;
    #[verifier::external_body]
    fn div(self, rhs: BigInt) -> (r: BigInt) { unimplemented!() } }
impl std::ops::Neg for BigInt { type Output = BigInt;
    #[verifier::external_body]
    fn neg(self) -> (r: BigInt) ensures r.val() == -self.val() { unimplemented!() } }
impl PartialEq for BigInt {
    #[verifier::external_body]
    fn eq(&self, o: &BigInt) -> (r: bool) ensures r == (self.val() == o.val()) { unimplemented!() } }
impl PartialOrd for BigInt {
    #[verifier::external_body]
    fn partial_cmp(&self, o: &BigInt) -> (r: Option<std::cmp::Ordering>) { unimplemented!() } 
    #[verifier::external_body]
    fn lt(&self, o: &BigInt) -> (r: bool) ensures r == (self.val() < o.val()) { unimplemented!() } 
}

pub fn t(a: BigInt, b: BigInt) -> (r: BigInt) ensures r.val() == a.val() + b.val() + 1 { a + b + 1 }
pub fn u(a: BigInt, b: BigInt) -> (r: BigInt) { a / b }
pub fn w(a: BigInt, b: BigInt) -> (r: bool) ensures r == (a.val() < b.val()) { a < b }
} // verus!
fn main() {}
