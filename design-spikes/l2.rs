use vstd::prelude::*;
verus! {
pub enum E { A(u8), B }
pub fn f1(r: Result<u32, E>) -> (o: Result<u64, E>) 
    ensures r is Ok ==> (o is Ok && o->Ok_0 == r->Ok_0 as u64)
{ r.map(|x| -> (y: u64) ensures y == x as u64 { x as u64 }) }
pub fn f6(r: Result<u32, E>) -> (o: Result<bool, E>) ensures r is Ok ==> o == Ok::<bool,E>(true) { r.map(|_v0| -> (b: bool) ensures b == true { true }) }
} // verus!
fn main() {}
