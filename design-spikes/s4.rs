use vstd::prelude::*;
verus! {

// ---------- shims (assumed contracts) ----------
pub mod std_io {
    use vstd::prelude::*;
    pub struct Error;
}
pub struct LittleEndian;
pub trait ByteOrder { spec fn is_le() -> bool; }
impl ByteOrder for LittleEndian { open spec fn is_le() -> bool { true } }

pub open spec fn le32(x: u32) -> Seq<u8> { seq![ x as u8, (x>>8) as u8, (x>>16) as u8, (x>>24) as u8 ] }

pub trait WriteBytesExt {
    spec fn view_bytes(&self) -> Seq<u8>;
    fn write_u32<T: ByteOrder>(&mut self, n: u32) -> (r: Result<(), std_io::Error>)
        ensures r is Ok, T::is_le() ==> final(self).view_bytes() == old(self).view_bytes() + le32(n);
}
impl WriteBytesExt for Vec<u8> {
    open spec fn view_bytes(&self) -> Seq<u8> { self@ }
    #[verifier::external_body]
    fn write_u32<T: ByteOrder>(&mut self, n: u32) -> (r: Result<(), std_io::Error>)
    { unimplemented!() }
}

pub enum BSVErrors { OutOfBounds(String), Io(std_io::Error), Other }
impl From<std_io::Error> for BSVErrors {
    #[verifier::external_body]
    fn from(e: std_io::Error) -> Self { BSVErrors::Io(e) }
}

pub struct Transaction { pub version: u32, pub n_locktime: u32 }

impl Transaction {
    pub fn t1(&mut self, n_tx_in: usize) -> (r: Result<Vec<u8>, BSVErrors>)
        ensures r is Ok ==> r->Ok_0@ == le32(old(self).version) + le32(old(self).n_locktime)
    {
        let mut buffer: Vec<u8> = vec![];
        buffer.write_u32::<LittleEndian>(self.version)?;
        buffer.write_u32::<LittleEndian>(self.n_locktime)?;
        Ok(buffer)
    }
}

} // verus!
fn main() {}
