use vstd::prelude::*;
verus! {

#[derive(Clone, Copy, PartialEq, Eq)]
#[allow(non_camel_case_types)]
pub enum OpCodes { OP_0 = 0, OP_PUSHDATA1 = 76, OP_PUSHDATA2 = 77, OP_PUSHDATA4 = 78, OP_IF = 99, OP_ELSE = 103, OP_ENDIF = 104, OP_NOP = 97 }

pub enum ScriptBit {
    OpCode(OpCodes),
    If { code: OpCodes, pass: Vec<ScriptBit>, fail: Option<Vec<ScriptBit>> },
    Push(Vec<u8>),
    PushData(OpCodes, Vec<u8>),
    Coinbase(Vec<u8>),
}

// ---- shim: to_le_bytes with assumed std semantics
pub open spec fn le16(x: u16) -> Seq<u8> { seq![ x as u8, (x >> 8) as u8 ] }
pub open spec fn le32(x: u32) -> Seq<u8> { seq![ x as u8, (x>>8) as u8, (x>>16) as u8, (x>>24) as u8 ] }
pub trait LeBytesV { type Out; fn to_le_bytes_v(self) -> Self::Out; }
impl LeBytesV for u8 { type Out = [u8;1];
    #[verifier::external_body] fn to_le_bytes_v(self) -> (r: [u8;1]) ensures r@ == seq![self] { self.to_le_bytes() } }
impl LeBytesV for u16 { type Out = [u8;2];
    #[verifier::external_body] fn to_le_bytes_v(self) -> (r: [u8;2]) ensures r@ == le16(self) { self.to_le_bytes() } }
impl LeBytesV for u32 { type Out = [u8;4];
    #[verifier::external_body] fn to_le_bytes_v(self) -> (r: [u8;4]) ensures r@ == le32(self) { self.to_le_bytes() } }

pub assume_specification<T: Clone> [<[T]>::to_vec] (s: &[T]) -> (r: Vec<T>) ensures r@ == s@;

pub trait ExtendV<I> { fn extend_v(&mut self, it: I); }
impl ExtendV<Vec<u8>> for Vec<u8> {
    #[verifier::external_body] fn extend_v(&mut self, it: Vec<u8>) ensures final(self)@ == old(self)@ + it@ { self.extend(it) } }
impl<'a> ExtendV<&'a Vec<u8>> for Vec<u8> {
    #[verifier::external_body] fn extend_v(&mut self, it: &'a Vec<u8>) ensures final(self)@ == old(self)@ + it@ { self.extend(it) } }
// ---- spec
pub open spec fn op_u8(c: OpCodes) -> u8 { c as u8 }

pub open spec fn ser_bit(b: ScriptBit) -> Seq<u8>
    decreases b
{
    match b {
        ScriptBit::OpCode(code) => seq![code as u8],
        ScriptBit::Push(bytes) => seq![bytes@.len() as u8] + bytes@,
        ScriptBit::PushData(code, bytes) => seq![code as u8] + (match code {
            OpCodes::OP_PUSHDATA1 => seq![bytes@.len() as u8],
            OpCodes::OP_PUSHDATA2 => le16(bytes@.len() as u16),
            _ => le32(bytes@.len() as u32),
        }) + bytes@,
        ScriptBit::If { code, pass, fail } => seq![code as u8] + ser_bits(pass@) + (match fail {
            Some(f) => seq![103u8] + ser_bits(f@),
            None => seq![],
        }) + seq![104u8],
        ScriptBit::Coinbase(bytes) => bytes@,
    }
}

pub open spec fn ser_bits(s: Seq<ScriptBit>) -> Seq<u8>
    decreases s
{
    if s.len() == 0 { seq![] } else { ser_bits(s.drop_last()) + ser_bit(s.last()) }
}

pub struct Script(pub Vec<ScriptBit>);

impl Script {
    pub fn script_bits_to_bytes(codes: &[ScriptBit]) -> (r: Vec<u8>)
        ensures r@ == ser_bits(codes@)
        decreases codes@
    {
        // R-flatmap desugaring of: codes.iter().flat_map(|x| BODY).collect()
        let mut acc: Vec<u8> = Vec::new();
        let mut idx: usize = 0;
        while idx < codes.len()
            invariant idx <= codes.len(), acc@ == ser_bits(codes@.take(idx as int)),
            decreases codes.len() - idx
        {
            let x = &codes[idx];
            let item = match x {
                ScriptBit::OpCode(code) => vec![*code as u8],
                ScriptBit::Push(bytes) => {
                    let mut pushbytes = bytes.clone();
                    pushbytes.insert(0, bytes.len() as u8);
                    pushbytes
                }
                ScriptBit::PushData(code, bytes) => {
                    let mut pushbytes = vec![*code as u8];

                    let length_bytes = match code {
                        OpCodes::OP_PUSHDATA1 => (bytes.len() as u8).to_le_bytes_v().to_vec(),
                        OpCodes::OP_PUSHDATA2 => (bytes.len() as u16).to_le_bytes_v().to_vec(),
                        _ => (bytes.len() as u32).to_le_bytes_v().to_vec(),
                    };
                    pushbytes.extend_v(length_bytes);
                    pushbytes.extend_v(bytes);
                    pushbytes
                }
                ScriptBit::If { code, pass, fail } => {
                    let mut bytes = vec![*code as u8];

                    bytes.extend_from_slice(&Script::script_bits_to_bytes(pass));

                    if let Some(fail) = fail {
                        bytes.push(OpCodes::OP_ELSE as u8);
                        bytes.extend_from_slice(&Script::script_bits_to_bytes(fail));
                    }
                    bytes.push(OpCodes::OP_ENDIF as u8);

                    bytes
                }
                ScriptBit::Coinbase(bytes) => bytes.to_vec(),
            };
            acc.extend_v(item);
            idx += 1;
            proof {
                assert(codes@.take(idx as int).drop_last() == codes@.take(idx - 1));
                assert(codes@.take(idx as int).last() == *x);
                assert(item@ == ser_bit(*x)) by {
                    if let ScriptBit::If { code, pass, fail } = x { 
                        if let Some(f) = fail { } 
                    }
                }
            }
        }
        proof { assert(codes@.take(codes.len() as int) == codes@); }
        let bytes = acc;

        bytes
    }
}

} // verus!
fn main() {}
