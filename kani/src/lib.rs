//! Kani harnesses on the REAL bsv crate (path dependency on /repo), for leaf functions that are
//! loop-free over their full input domain.  Each `spec_*` function below is the executable
//! transcription of the Verus spec function of the same name in /verif/spec (kept adjacent and
//! deliberately trivial); the harness proves  real_function(x) == spec(x)  for ALL x.
#![allow(unused)]
#[cfg(kani)]
mod leaves {
    use bsv::*;
    use std::io::Cursor;

    // spec/tx.rs: varint(n)  (canonical compact size)
    fn spec_varint(n: u64) -> Vec<u8> {
        if n <= 252 { vec![n as u8] }
        else if n <= 0xffff { let b = (n as u16).to_le_bytes(); vec![0xfd, b[0], b[1]] }
        else if n <= 0xffff_ffff { let b = (n as u32).to_le_bytes(); vec![0xfe, b[0], b[1], b[2], b[3]] }
        else { let b = n.to_le_bytes(); vec![0xff, b[0], b[1], b[2], b[3], b[4], b[5], b[6], b[7]] }
    }

    fn same(a: &[u8], b: &[u8]) -> bool {
        if a.len() != b.len() { return false; }
        let mut i = 0;
        while i < a.len() { if a[i] != b[i] { return false; } i += 1; }
        true
    }

    /// VarIntWriter for Vec<u8>::write_varint writes exactly varint(n) into an empty Vec, for every u64.
    /// (That writing to a non-empty Vec appends is std's `impl Write for Vec<u8>`.)
    #[kani::proof]
    #[kani::unwind(11)]
    fn write_varint_vec_all_u64() {
        let n: u64 = kani::any();
        let mut v: Vec<u8> = Vec::new();
        let r = v.write_varint(n);
        assert!(r.is_ok());
        assert!(same(&v, &spec_varint(n)));
        kani::cover!(n > 0xffff_ffff);
        kani::cover!(n == 253);
    }

    /// VarInt::get_varint_bytes(n) == varint(n) for every u64.
    #[kani::proof]
    #[kani::unwind(11)]
    fn get_varint_bytes_all_u64() {
        let n: u64 = kani::any();
        let got = VarInt::get_varint_bytes(n);
        assert!(same(&got, &spec_varint(n)));
    }

    // spec/tx.rs: parse_varint(s) (the accepting reader: non-canonical forms included)
    fn spec_parse_varint(s: &[u8]) -> Option<(u64, usize)> {
        if s.len() < 1 { return None; }
        match s[0] {
            0xff => if s.len() < 9 { None } else { Some((u64::from_le_bytes([s[1], s[2], s[3], s[4], s[5], s[6], s[7], s[8]]), 9)) },
            0xfe => if s.len() < 5 { None } else { Some((u32::from_le_bytes([s[1], s[2], s[3], s[4]]) as u64, 5)) },
            0xfd => if s.len() < 3 { None } else { Some((u16::from_le_bytes([s[1], s[2]]) as u64, 3)) },
            b => Some((b as u64, 1)),
        }
    }

    /// VarIntReader for Cursor<Vec<u8>>::read_varint == parse_varint on every buffer of 0..=9 bytes
    /// (the reader never looks beyond 9 bytes): value, bytes consumed, and Err exactly when too short.
    #[kani::proof]
    #[kani::unwind(11)]
    fn read_varint_cursor_all_prefixes() {
        let buf: [u8; 9] = kani::any();
        let len: usize = kani::any();
        kani::assume(len <= 9);
        let mut c = Cursor::new(buf[..len].to_vec());
        let r = c.read_varint();
        match spec_parse_varint(&buf[..len]) {
            Some((v, used)) => { assert!(r.is_ok()); assert!(r.unwrap() == v); assert!(c.position() == used as u64); }
            None => { assert!(r.is_err()); }
        }
        kani::cover!(len == 9 && buf[0] == 0xff);
        kani::cover!(len == 2 && buf[0] == 0xfd);
    }


    // ---- shims/cursor.rs: assumed contracts of byteorder::ReadBytesExt / std::io::Read on std::io::Cursor<Vec<u8>> ----
    /// read_u8 / read_u16 / read_u32 / read_u64 (little endian) and read_u32 big endian at any position of any buffer of
    /// 0..=10 bytes: Ok exactly when enough bytes remain, value = the little/big-endian value of the next bytes,
    /// position advanced by the width.  (BOUNDED: buffer length <= 10; the reads never look further than 8 bytes ahead.)
    #[kani::proof]
    #[kani::unwind(12)]
    fn cursor_fixed_width_reads_up_to_10_bytes() {
        use byteorder::{BigEndian, LittleEndian, ReadBytesExt};
        let buf: [u8; 10] = kani::any();
        let len: usize = kani::any();
        kani::assume(len <= 10);
        let pos: usize = kani::any();
        kani::assume(pos <= len);
        let which: u8 = kani::any();
        kani::assume(which < 5);
        let mut c = Cursor::new(buf[..len].to_vec());
        c.set_position(pos as u64);
        let rest = &buf[pos..len];
        let (ok, val, width): (bool, u64, usize) = match which {
            0 => match c.read_u8() { Ok(v) => (true, v as u64, 1), Err(e) => { std::mem::forget(e); (false, 0, 1) } },
            1 => match c.read_u16::<LittleEndian>() { Ok(v) => (true, v as u64, 2), Err(e) => { std::mem::forget(e); (false, 0, 2) } },
            2 => match c.read_u32::<LittleEndian>() { Ok(v) => (true, v as u64, 4), Err(e) => { std::mem::forget(e); (false, 0, 4) } },
            3 => match c.read_u64::<LittleEndian>() { Ok(v) => (true, v, 8), Err(e) => { std::mem::forget(e); (false, 0, 8) } },
            _ => match c.read_u32::<BigEndian>() { Ok(v) => (true, v as u64, 4), Err(e) => { std::mem::forget(e); (false, 0, 4) } },
        };
        assert!(ok == (rest.len() >= width));
        if ok {
            let mut exp: u64 = 0;
            let mut i = 0;
            while i < width {
                if which == 4 { exp = (exp << 8) | rest[i] as u64; } else { exp |= (rest[i] as u64) << (8 * i); }
                i += 1;
            }
            assert!(val == exp);
            assert!(c.position() == (pos + width) as u64);
        }
        kani::cover!(ok && which == 3);
        kani::cover!(!ok && which == 1 && rest.len() == 1);
    }

    /// Read::read copies min(buf.len(), remaining) bytes and returns Ok(n) (a short read is not an error);
    /// Read::read_exact fails exactly when fewer bytes remain than asked for, otherwise copies them and advances.
    /// (BOUNDED: source of 0..=8 bytes, destination of 0..=6 bytes.)
    #[kani::proof]
    #[kani::unwind(10)]
    fn cursor_read_and_read_exact_up_to_8_bytes() {
        use std::io::Read;
        let buf: [u8; 8] = kani::any();
        let len: usize = kani::any();
        kani::assume(len <= 8);
        let pos: usize = kani::any();
        kani::assume(pos <= len);
        let want: usize = kani::any();
        kani::assume(want <= 6);
        let exact: bool = kani::any();
        let mut c = Cursor::new(buf[..len].to_vec());
        c.set_position(pos as u64);
        let mut dst = [0xEEu8; 6];
        let rest = len - pos;
        if exact {
            match c.read_exact(&mut dst[..want]) {
                Ok(()) => { assert!(rest >= want); assert!(same(&dst[..want], &buf[pos..pos + want])); assert!(c.position() == (pos + want) as u64); }
                Err(e) => { std::mem::forget(e); assert!(rest < want); }
            }
        } else {
            match c.read(&mut dst[..want]) {
                Ok(n) => { let m = if rest < want { rest } else { want }; assert!(n == m); assert!(same(&dst[..n], &buf[pos..pos + n])); assert!(c.position() == (pos + n) as u64); }
                Err(e) => { std::mem::forget(e); assert!(false); }
            }
        }
        kani::cover!(!exact && rest < want);
        kani::cover!(exact && rest < want);
    }

    /// std::io::Cursor<Vec<u8>> as a write buffer (shims/cursor_write.rs, spec cur_written / cur_wr): a write at a position
    /// inside or at the end of the buffer overwrites from there and extends the Vec as needed, returns Ok(len) and advances;
    /// read_to_end appends the rest to the destination and moves to the end.
    /// (BOUNDED: buffer of 0..=6 bytes, data of 0..=4 bytes.)
    #[kani::proof]
    #[kani::unwind(12)]
    fn cursor_vec_write_and_read_to_end_up_to_6_bytes() {
        use std::io::{Read, Write};
        let buf: [u8; 6] = kani::any();
        let len: usize = kani::any();
        kani::assume(len <= 6);
        let pos: usize = kani::any();
        kani::assume(pos <= len);
        let data: [u8; 4] = kani::any();
        let dl: usize = kani::any();
        kani::assume(dl <= 4);
        let mut c = Cursor::new(buf[..len].to_vec());
        c.set_position(pos as u64);
        match c.write(&data[..dl]) {
            Ok(n) => assert!(n == dl),
            Err(e) => { std::mem::forget(e); assert!(false); }
        }
        assert!(c.position() == (pos + dl) as u64);
        // cur_written(all, pos, data)
        let newlen = if pos + dl >= len { pos + dl } else { len };
        {
            let all = c.get_ref();
            assert!(all.len() == newlen);
            let mut i = 0;
            while i < newlen {
                let want = if i < pos { buf[i] } else if i < pos + dl { data[i - pos] } else { buf[i] };
                assert!(all[i] == want);
                i += 1;
            }
        }
        // read_to_end from an arbitrary position inside the new buffer
        let rp: usize = kani::any();
        kani::assume(rp <= newlen);
        c.set_position(rp as u64);
        let mut dst: Vec<u8> = Vec::new();
        dst.push(0xEE);
        match c.read_to_end(&mut dst) {
            Ok(n) => assert!(n == newlen - rp),
            Err(e) => { std::mem::forget(e); assert!(false); }
        }
        assert!(dst.len() == 1 + newlen - rp);
        assert!(dst[0] == 0xEE);
        assert!(c.position() == newlen as u64);
        let mut j = 0;
        while j < newlen - rp { assert!(dst[1 + j] == c.get_ref()[rp + j]); j += 1; }
        kani::cover!(pos < len && pos + dl > len);
        kani::cover!(pos + dl < len && dl > 0);
        kani::cover!(pos == len && dl == 4);
    }

    // ---- script stack primitives (through the cfg(bsv_verif) hook) ----
    use bsv::verif_hooks::ScriptStack;

    // spec/scriptnum.rs: enc_scriptnum(v) for |v| < 2^31 (sign-magnitude, minimal)
    fn spec_enc_scriptnum(v: i64) -> Vec<u8> {
        if v == 0 { return vec![]; }
        let neg = v < 0;
        let mut a: u64 = if neg { (-v) as u64 } else { v as u64 };
        let mut out: Vec<u8> = vec![];
        let mut i = 0;
        while a > 0 && i < 5 { out.push((a & 0xff) as u8); a >>= 8; i += 1; }
        let last = out[out.len() - 1];
        if last & 0x80 != 0 { out.push(if neg { 0x80 } else { 0x00 }); }
        else if neg { let l = out.len(); out[l - 1] = last | 0x80; }
        out
    }
    // spec/scriptnum.rs: scriptnum(bytes) for at most 4 bytes
    fn spec_scriptnum4(b: &[u8]) -> i64 {
        if b.len() == 0 { return 0; }
        let mut mag: i64 = 0;
        let mut i = 0;
        while i < b.len() { let byte = if i == b.len() - 1 { b[i] & 0x7f } else { b[i] }; mag += (byte as i64) << (8 * i); i += 1; }
        if b[b.len() - 1] & 0x80 != 0 { -mag } else { mag }
    }
    // spec/scriptnum.rs: truthy(bytes)
    fn spec_truthy(b: &[u8]) -> bool {
        let mut i = 0;
        while i < b.len() { if b[i] != 0 && !(i == b.len() - 1 && b[i] == 0x80) { return true; } i += 1; }
        false
    }

    /// push_number: Err exactly outside [-(2^31-1), 2^31-1]; otherwise pushes exactly the minimal script number. All i64.
    #[kani::proof]
    #[kani::unwind(8)]
    fn push_number_all_i64() {
        let v: i64 = kani::any();
        let mut st: Vec<Vec<u8>> = Vec::new();
        let r = st.push_number(v);
        let out_of_range = v > i32::MAX as i64 || v < -(i32::MAX as i64);
        match r {
            Ok(()) => { assert!(!out_of_range); assert!(st.len() == 1); assert!(same(&st[0], &spec_enc_scriptnum(v))); }
            Err(e) => { assert!(out_of_range); assert!(st.len() == 0); std::mem::forget(e); }
        }
        kani::cover!(v == -8388608);
        kani::cover!(v == 2147483647);
    }

    /// pop_number: every top element of 0..=5 bytes: Ok(scriptnum) iff at most 4 bytes; the element is popped.
    #[kani::proof]
    #[kani::unwind(8)]
    fn pop_number_all_short_elements() {
        let buf: [u8; 5] = kani::any();
        let len: usize = kani::any();
        kani::assume(len <= 5);
        let mut st: Vec<Vec<u8>> = vec![buf[..len].to_vec()];
        let r = st.pop_number();
        match r {
            Ok(v) => { assert!(len <= 4); assert!(v as i64 == spec_scriptnum4(&buf[..len])); }
            Err(e) => { assert!(len > 4); std::mem::forget(e); }
        }
        assert!(st.len() == 0);
        kani::cover!(len == 4 && buf[3] == 0x80);
    }

    /// push_bool: true -> [01], false -> [] (empty byte string).
    #[kani::proof]
    #[kani::unwind(4)]
    fn push_bool_both() {
        let b: bool = kani::any();
        let mut st: Vec<Vec<u8>> = Vec::new();
        assert!(st.push_bool(b).is_ok());
        assert!(st.len() == 1);
        if b { assert!(st[0].len() == 1 && st[0][0] == 1); } else { assert!(st[0].len() == 0); }
    }

    /// pop_bool: script truthiness for every element of 0..=6 bytes (BOUNDED in length: the loop is over the element).
    #[kani::proof]
    #[kani::unwind(9)]
    fn pop_bool_elements_up_to_6_bytes() {
        let buf: [u8; 6] = kani::any();
        let len: usize = kani::any();
        kani::assume(len <= 6);
        let mut st: Vec<Vec<u8>> = vec![buf[..len].to_vec()];
        let r = st.pop_bool();
        match r {
            Ok(b) => { assert!(b == spec_truthy(&buf[..len])); }
            Err(e) => { std::mem::forget(e); assert!(false); }
        }
        assert!(st.len() == 0);
        kani::cover!(len == 6 && buf[5] == 0x80 && buf[0] == 0);
    }
}
