//! Kani harnesses on the REAL bsv crate (path dependency on /repo), for leaf functions that are
//! loop-free over their full input domain.  Each `spec_*` function below is the executable
//! transcription of the Verus spec function of the same name in /verif/spec (kept adjacent and
//! deliberately trivial); the harness proves  real_function(x) == spec(x)  for ALL x.
#![allow(unused)]
#[cfg(kani)]
mod leaves {
    use bsv::*;
    use std::io::Cursor;

    // spec/tx.rs: varint(n)  (canonical compact size)
    fn spec_varint(n: u64) -> Vec<u8> {
        if n <= 252 { vec![n as u8] }
        else if n <= 0xffff { let b = (n as u16).to_le_bytes(); vec![0xfd, b[0], b[1]] }
        else if n <= 0xffff_ffff { let b = (n as u32).to_le_bytes(); vec![0xfe, b[0], b[1], b[2], b[3]] }
        else { let b = n.to_le_bytes(); vec![0xff, b[0], b[1], b[2], b[3], b[4], b[5], b[6], b[7]] }
    }

    fn same(a: &[u8], b: &[u8]) -> bool {
        if a.len() != b.len() { return false; }
        let mut i = 0;
        while i < a.len() { if a[i] != b[i] { return false; } i += 1; }
        true
    }

    /// VarIntWriter for Vec<u8>::write_varint writes exactly varint(n) into an empty Vec, for every u64.
    /// (That writing to a non-empty Vec appends is std's `impl Write for Vec<u8>`.)
    #[kani::proof]
    #[kani::unwind(11)]
    fn write_varint_vec_all_u64() {
        let n: u64 = kani::any();
        let mut v: Vec<u8> = Vec::new();
        let r = v.write_varint(n);
        assert!(r.is_ok());
        assert!(same(&v, &spec_varint(n)));
        kani::cover!(n > 0xffff_ffff);
        kani::cover!(n == 253);
    }

    /// VarInt::get_varint_bytes(n) == varint(n) for every u64.
    #[kani::proof]
    #[kani::unwind(11)]
    fn get_varint_bytes_all_u64() {
        let n: u64 = kani::any();
        let got = VarInt::get_varint_bytes(n);
        assert!(same(&got, &spec_varint(n)));
    }

    // spec/tx.rs: parse_varint(s) (the accepting reader: non-canonical forms included)
    fn spec_parse_varint(s: &[u8]) -> Option<(u64, usize)> {
        if s.len() < 1 { return None; }
        match s[0] {
            0xff => if s.len() < 9 { None } else { Some((u64::from_le_bytes([s[1], s[2], s[3], s[4], s[5], s[6], s[7], s[8]]), 9)) },
            0xfe => if s.len() < 5 { None } else { Some((u32::from_le_bytes([s[1], s[2], s[3], s[4]]) as u64, 5)) },
            0xfd => if s.len() < 3 { None } else { Some((u16::from_le_bytes([s[1], s[2]]) as u64, 3)) },
            b => Some((b as u64, 1)),
        }
    }

    /// VarIntReader for Cursor<Vec<u8>>::read_varint == parse_varint on every buffer of 0..=9 bytes
    /// (the reader never looks beyond 9 bytes): value, bytes consumed, and Err exactly when too short.
    #[kani::proof]
    #[kani::unwind(11)]
    fn read_varint_cursor_all_prefixes() {
        let buf: [u8; 9] = kani::any();
        let len: usize = kani::any();
        kani::assume(len <= 9);
        let mut c = Cursor::new(buf[..len].to_vec());
        let r = c.read_varint();
        match spec_parse_varint(&buf[..len]) {
            Some((v, used)) => { assert!(r.is_ok()); assert!(r.unwrap() == v); assert!(c.position() == used as u64); }
            None => { assert!(r.is_err()); }
        }
        kani::cover!(len == 9 && buf[0] == 0xff);
        kani::cover!(len == 2 && buf[0] == 0xfd);
    }
}
