// generic_array::GenericArray::from_slice at the 32-byte digest type: asserts the exact length (documented panic)
pub struct GenericArray;
impl GenericArray { #[verifier::external_body] pub fn from_slice<'a>(s: &'a [u8]) -> (r: &'a FieldBytes) requires s@.len() == 32 ensures r@ == s@ { unimplemented!() } }
