// ================= shim of the ecdsa / elliptic-curve signing & verification primitives (ASSUMED) =================
pub type DigestBytes = FieldBytes;
pub struct U256 { pub v: Ghost<Seq<u8>>, pub le: Ghost<bool> }   // the bytes it was built from and their byte order
impl U256 {
    // crypto-bigint's from_*_slice assert the exact byte length
    #[verifier::external_body] pub fn from_le_slice(b: &[u8]) -> (r: U256) requires b@.len() == 32 ensures r.v@ == b@, r.le@ { unimplemented!() }
    #[verifier::external_body] pub fn from_be_slice(b: &[u8]) -> (r: U256) requires b@.len() == 32 ensures r.v@ == b@, !r.le@ { unimplemented!() }
}
pub trait Reduce<T>: Sized { fn from_be_bytes_reduced(b: FieldBytes) -> Self; fn from_le_bytes_reduced(b: FieldBytes) -> Self; }
impl Reduce<U256> for Scalar {
    #[verifier::external_body] fn from_be_bytes_reduced(b: FieldBytes) -> (r: Scalar) ensures r.v@ == reduce_be(b@) { unimplemented!() }
    #[verifier::external_body] fn from_le_bytes_reduced(b: FieldBytes) -> (r: Scalar) ensures r.v@ == reduce_le(b@) { unimplemented!() }
}
// ff::PrimeField::from_repr: the canonical (non-reducing) decoder, None for a value >= n
pub uninterp spec fn below_order(b: Seq<u8>) -> bool;
pub axiom fn axiom_reduce_canonical(b: Seq<u8>) requires below_order(b) ensures reduce_be(b) == b;
impl Scalar {
    #[verifier::external_body] pub fn from_repr(b: FieldBytes) -> (r: CtOption<Scalar>)
        ensures match r.o { Some(s) => below_order(b@) && s.v@ == b@, None => !below_order(b@) } { unimplemented!() }
    #[verifier::external_body] pub fn from_uint_reduced(u: U256) -> (r: Scalar) ensures r.v@ == (if u.le@ { reduce_le(u.v@) } else { reduce_be(u.v@) }) { unimplemented!() }
}
pub trait NzsLike { spec fn nzs(&self) -> Seq<u8>; }
impl NzsLike for NonZeroScalar { open spec fn nzs(&self) -> Seq<u8> { self.v@ } }
pub struct Zeroizing<T> { pub inner: T }
impl<T> core::ops::Deref for Zeroizing<T> { type Target = T;
    #[verifier::external_body] fn deref(&self) -> (r: &T) ensures *r == self.inner { unimplemented!() } }
// RFC 6979 deterministic nonce over HMAC-D (assumed to be the published algorithm)
#[verifier::external_body]
pub fn rfc6979_generate_k<C: NzsLike, D>(x: &C, z: &Scalar, extra: &[u8]) -> (r: Zeroizing<NonZeroScalar>)
    ensures r.inner.v@ == rfc6979_k::<D>(x.nzs(), z.v@, if extra@.len() == 0 { Seq::<u8>::empty() } else { extra@ })
{ unimplemented!() }
impl NonZeroScalar {
    // SignPrimitive::try_sign_prehashed (through Deref to Scalar): low-S normalised signature + recovery id
    #[verifier::external_body] pub fn try_sign_prehashed(&self, k: Scalar, z: Scalar) -> (r: Result<(SecpSignature, Option<RecoveryId>), EcdsaError>)
        ensures match r { Ok((sg, id)) => id is Some && ecdsa_sign(self.v@, k.v@, z.v@) == Some((sg.v@, id->Some_0.y_odd, id->Some_0.x_reduced)), Err(_) => ecdsa_sign(self.v@, k.v@, z.v@) is None } { unimplemented!() }
}
impl Scalar {
    #[verifier::external_body] pub fn try_sign_prehashed(&self, k: Scalar, z: Scalar) -> (r: Result<(SecpSignature, Option<RecoveryId>), EcdsaError>)
        ensures match r { Ok((sg, id)) => id is Some && ecdsa_sign(self.v@, k.v@, z.v@) == Some((sg.v@, id->Some_0.y_odd, id->Some_0.x_reduced)), Err(_) => ecdsa_sign(self.v@, k.v@, z.v@) is None } { unimplemented!() }
}
impl VerifyingKey {
    #[verifier::external_body] pub fn from_encoded_point(p: &EncodedPoint) -> (r: Result<VerifyingKey, EcdsaError>)
        ensures match r { Ok(k) => sec1_valid(p.b@) && k.pt@ == sec1_point(p.b@), Err(_) => !sec1_valid(p.b@) } { unimplemented!() }
    // DigestVerifier::verify_digest: z = big-endian reduction of the finalised digest
    #[verifier::external_body] pub fn verify_digest<D: HashDigest>(&self, digest: D, sig: &SecpSignature) -> (r: Result<(), EcdsaError>)
        ensures r is Ok <==> ecdsa_verify(self.pt@, reduce_be(digest.hd_final()), sig.v@) { unimplemented!() }
}
impl AffinePoint {
    #[verifier::external_body] pub fn from_encoded_point(p: &EncodedPoint) -> (r: CtOption<AffinePoint>)
        ensures match r.o { Some(a) => sec1_valid(p.b@) && a.pt@ == sec1_point(p.b@), None => !sec1_valid(p.b@) } { unimplemented!() }
    #[verifier::external_body] pub fn verify_prehashed(&self, z: Scalar, sig: &SecpSignature) -> (r: Result<(), EcdsaError>)
        ensures r is Ok <==> ecdsa_verify(self.pt@, z.v@, sig.v@) { unimplemented!() }
}
pub struct OsRng;
impl OsRng { #[verifier::external_body] pub fn fill_bytes(&mut self, dest: &mut FieldBytes) { unimplemented!() } }
impl Default for FieldBytes { #[verifier::external_body] fn default() -> (r: Self) ensures r@.len() == 32 { unimplemented!() } }
pub struct SharedSecret { pub x: Ghost<Seq<u8>> }
pub uninterp spec fn pt_x(pt: Seq<u8>) -> Seq<u8>;   // affine x coordinate, 32 bytes
#[verifier::external_body]
pub fn diffie_hellman(sk: NonZeroScalar, pk: &AffinePoint) -> (r: SharedSecret) ensures r.x@ == pt_x(pt_mul(pk.pt@, sk.v@)) { unimplemented!() }
impl SharedSecret { #[verifier::external_body] pub fn as_bytes(&self) -> (r: &FieldBytes) ensures r@ == self.x@ { unimplemented!() } }
