// ================= shim of the `digest` / generic_array / sha2 / sha-1 / ripemd160 / hmac API subset =================
// Engines carry a ghost `absorbed` byte string; the dependency crates are ASSUMED to compute the named uninterpreted
// functions of what was absorbed.  `Digest` is the blanket convenience trait of the digest crate, assumed to be
// new/default + update + finalize_fixed of the implementing type (for the repository's own adapters the link to their
// real finalize_into is the proof obligation `[matches_digest_trait_spec]` on that function).
pub struct U20; pub struct U32; pub struct U64; pub struct U128;
pub struct GenericArray<T, N> { pub data: Vec<T>, pub _n: core::marker::PhantomData<N> }
impl<N> View for GenericArray<u8, N> { type V = Seq<u8>; open spec fn view(&self) -> Seq<u8> { self.data@ } }
impl<N> AsRef<[u8]> for &GenericArray<u8, N> { open spec fn bytes_v(&self) -> Seq<u8> { self.data@ } #[verifier::external_body] fn as_ref(&self) -> (r: &[u8]) { unimplemented!() } }
impl<N> AsRef<[u8]> for GenericArray<u8, N> { open spec fn bytes_v(&self) -> Seq<u8> { self.data@ } #[verifier::external_body] fn as_ref(&self) -> (r: &[u8]) { unimplemented!() } }
impl<N> GenericArray<u8, N> {
    #[verifier::external_body] pub fn reverse(&mut self) ensures final(self)@ == old(self)@.reverse() { unimplemented!() }
    #[verifier::external_body] pub fn copy_from_slice<S: AsRef<[u8]>>(&mut self, src: S) ensures final(self)@ == src.bytes_v() { unimplemented!() }
    #[verifier::external_body] pub fn to_vec(&self) -> (r: Vec<u8>) ensures r@ == self@ { unimplemented!() }
}
impl<N> Default for GenericArray<u8, N> { #[verifier::external_body] fn default() -> Self { unimplemented!() } }
impl<N> core::ops::Deref for GenericArray<u8, N> { type Target = [u8];
    #[verifier::external_body] fn deref(&self) -> (r: &[u8]) ensures r@ == self@ { unimplemented!() } }

pub trait Update { spec fn absorbed_(&self) -> Seq<u8>; spec fn rest_(&self) -> bool;
    fn update<S: AsRef<[u8]>>(&mut self, data: S); }
pub trait Reset { spec fn absorbed_r(&self) -> Seq<u8>; fn reset(&mut self) ensures final(self).absorbed_r() == Seq::<u8>::empty(); }
pub trait BlockInput { type BlockSize; }
pub trait ReversibleDigest: Sized { fn reverse(&self) -> Self; }
pub trait FixedOutput: Sized + OutSize {
    fn finalize_into(self, out: &mut GenericArray<u8, Self::OutputSize>);
    fn finalize_into_reset(&mut self, out: &mut GenericArray<u8, Self::OutputSize>);
    fn finalize_fixed(self) -> GenericArray<u8, Self::OutputSize> where Self: Sized;
}
pub trait FixedOutputDirty: Sized + OutSize { fn finalize_into_dirty(&mut self, out: &mut GenericArray<u8, Self::OutputSize>); }
// what `finalize` of an engine that absorbed `a` returns
pub trait DigestSpec { spec fn final_spec(a: Seq<u8>) -> Seq<u8>; spec fn absorbed_d(&self) -> Seq<u8>; }

pub struct Sha256 { pub absorbed: Ghost<Seq<u8>> }
impl Clone for Sha256 { #[verifier::external_body] fn clone(&self) -> (r: Self) ensures r.absorbed@ == self.absorbed@ { unimplemented!() } }
impl Default for Sha256 { #[verifier::external_body] fn default() -> (r: Self) ensures r.absorbed@ == Seq::<u8>::empty() { unimplemented!() } }
impl Update for Sha256 { open spec fn absorbed_(&self) -> Seq<u8> { self.absorbed@ } open spec fn rest_(&self) -> bool { true }
    #[verifier::external_body] fn update<S: AsRef<[u8]>>(&mut self, data: S) ensures final(self).absorbed@ == old(self).absorbed@ + data.bytes_v() { unimplemented!() } }
impl DigestSpec for Sha256 { open spec fn final_spec(a: Seq<u8>) -> Seq<u8> { spec_sha256(a) } open spec fn absorbed_d(&self) -> Seq<u8> { self.absorbed@ } }
impl Sha256 {
    #[verifier::external_body] pub fn finalize(self) -> (r: GenericArray<u8, U32>) ensures r@ == spec_sha256(self.absorbed@) { unimplemented!() }
    #[verifier::external_body] pub fn digest<S: AsRef<[u8]>>(data: S) -> (r: GenericArray<u8, U32>) ensures r@ == spec_sha256(data.bytes_v()) { unimplemented!() }
}
pub struct Sha512 { pub absorbed: Ghost<Seq<u8>> }
impl Clone for Sha512 { #[verifier::external_body] fn clone(&self) -> (r: Self) ensures r.absorbed@ == self.absorbed@ { unimplemented!() } }
impl Default for Sha512 { #[verifier::external_body] fn default() -> (r: Self) ensures r.absorbed@ == Seq::<u8>::empty() { unimplemented!() } }
impl Update for Sha512 { open spec fn absorbed_(&self) -> Seq<u8> { self.absorbed@ } open spec fn rest_(&self) -> bool { true }
    #[verifier::external_body] fn update<S: AsRef<[u8]>>(&mut self, data: S) ensures final(self).absorbed@ == old(self).absorbed@ + data.bytes_v() { unimplemented!() } }
impl DigestSpec for Sha512 { open spec fn final_spec(a: Seq<u8>) -> Seq<u8> { spec_sha512(a) } open spec fn absorbed_d(&self) -> Seq<u8> { self.absorbed@ } }
impl Sha512 {
    #[verifier::external_body] pub fn finalize(self) -> (r: GenericArray<u8, U64>) ensures r@ == spec_sha512(self.absorbed@) { unimplemented!() }
    #[verifier::external_body] pub fn digest<S: AsRef<[u8]>>(data: S) -> (r: GenericArray<u8, U64>) ensures r@ == spec_sha512(data.bytes_v()) { unimplemented!() }
}
pub struct Sha1 { pub absorbed: Ghost<Seq<u8>> }
impl Clone for Sha1 { #[verifier::external_body] fn clone(&self) -> (r: Self) ensures r.absorbed@ == self.absorbed@ { unimplemented!() } }
impl Default for Sha1 { #[verifier::external_body] fn default() -> (r: Self) ensures r.absorbed@ == Seq::<u8>::empty() { unimplemented!() } }
impl Update for Sha1 { open spec fn absorbed_(&self) -> Seq<u8> { self.absorbed@ } open spec fn rest_(&self) -> bool { true }
    #[verifier::external_body] fn update<S: AsRef<[u8]>>(&mut self, data: S) ensures final(self).absorbed@ == old(self).absorbed@ + data.bytes_v() { unimplemented!() } }
impl DigestSpec for Sha1 { open spec fn final_spec(a: Seq<u8>) -> Seq<u8> { spec_sha1(a) } open spec fn absorbed_d(&self) -> Seq<u8> { self.absorbed@ } }
impl Sha1 {
    #[verifier::external_body] pub fn finalize(self) -> (r: GenericArray<u8, U20>) ensures r@ == spec_sha1(self.absorbed@) { unimplemented!() }
    #[verifier::external_body] pub fn digest<S: AsRef<[u8]>>(data: S) -> (r: GenericArray<u8, U20>) ensures r@ == spec_sha1(data.bytes_v()) { unimplemented!() }
}
pub struct Ripemd160 { pub absorbed: Ghost<Seq<u8>> }
impl Clone for Ripemd160 { #[verifier::external_body] fn clone(&self) -> (r: Self) ensures r.absorbed@ == self.absorbed@ { unimplemented!() } }
impl Default for Ripemd160 { #[verifier::external_body] fn default() -> (r: Self) ensures r.absorbed@ == Seq::<u8>::empty() { unimplemented!() } }
impl Update for Ripemd160 { open spec fn absorbed_(&self) -> Seq<u8> { self.absorbed@ } open spec fn rest_(&self) -> bool { true }
    #[verifier::external_body] fn update<S: AsRef<[u8]>>(&mut self, data: S) ensures final(self).absorbed@ == old(self).absorbed@ + data.bytes_v() { unimplemented!() } }
impl DigestSpec for Ripemd160 { open spec fn final_spec(a: Seq<u8>) -> Seq<u8> { spec_ripemd160(a) } open spec fn absorbed_d(&self) -> Seq<u8> { self.absorbed@ } }
impl Ripemd160 {
    #[verifier::external_body] pub fn finalize(self) -> (r: GenericArray<u8, U20>) ensures r@ == spec_ripemd160(self.absorbed@) { unimplemented!() }
    #[verifier::external_body] pub fn digest<S: AsRef<[u8]>>(data: S) -> (r: GenericArray<u8, U20>) ensures r@ == spec_ripemd160(data.bytes_v()) { unimplemented!() }
}

// `digest::Digest` convenience functions used through path syntax (Digest::update(&mut e, d), Digest::chain(e, d),
// digest::Digest::finalize(e)): assumed to be the blanket impl of the digest crate = Update::update / finalize.
pub struct Digest;
impl Digest {
    #[verifier::external_body] pub fn update<D: Update, S: AsRef<[u8]>>(d: &mut D, data: S) ensures final(d).absorbed_() == old(d).absorbed_() + data.bytes_v() { unimplemented!() }
    #[verifier::external_body] pub fn chain<D: Update, S: AsRef<[u8]>>(d: D, data: S) -> (r: D) ensures r.absorbed_() == d.absorbed_() + data.bytes_v(), r.rest_() == d.rest_() { unimplemented!() }
    #[verifier::external_body] pub fn finalize(d: Sha256) -> (r: GenericArray<u8, U32>) ensures r@ == spec_sha256(d.absorbed@) { unimplemented!() }
    #[verifier::external_body] pub fn finalize_reset(d: &mut Sha256) -> (r: GenericArray<u8, U32>) ensures r@ == spec_sha256(old(d).absorbed@), final(d).absorbed@ == Seq::<u8>::empty() { unimplemented!() }
}
pub mod digest {
    pub use super::Digest;
    pub use super::Reset;
    pub type Output<D> = super::GenericArray<u8, <D as super::OutSize>::OutputSize>;
    pub mod generic_array { pub use super::super::GenericArray; }
}
pub trait OutSize { type OutputSize; }
// ---- hmac::Hmac<T> (assumed): HMAC over hash T with key and message; any key length is accepted ----
pub uninterp spec fn spec_hmac<T>(key: Seq<u8>, msg: Seq<u8>) -> Seq<u8>;
#[derive(Debug)]
pub struct InvalidLength;
pub struct Hmac<T> { pub key: Ghost<Seq<u8>>, pub msg: Ghost<Seq<u8>>, pub _t: core::marker::PhantomData<T> }
pub struct CtOutput<T> { pub bytes: Ghost<Seq<u8>>, pub _t: core::marker::PhantomData<T> }
impl<T> Hmac<T> {
    #[verifier::external_body] pub fn new_from_slice(key: &[u8]) -> (r: Result<Hmac<T>, InvalidLength>) ensures r is Ok, r->Ok_0.key@ == key@, r->Ok_0.msg@ == Seq::<u8>::empty() { unimplemented!() }
    #[verifier::external_body] pub fn update(&mut self, data: &[u8]) ensures final(self).key@ == old(self).key@, final(self).msg@ == old(self).msg@ + data@ { unimplemented!() }
    #[verifier::external_body] pub fn finalize(self) -> (r: CtOutput<T>) ensures r.bytes@ == spec_hmac::<T>(self.key@, self.msg@) { unimplemented!() }
}
impl<T> CtOutput<T> {
    #[verifier::external_body] pub fn into_bytes(self) -> (r: GenericArray<u8, U64>) ensures r@ == self.bytes@ { unimplemented!() }
}
impl OutSize for Sha256 { type OutputSize = U32; }
impl BlockInput for Sha256 { type BlockSize = U64; }
impl Reset for Sha256 { open spec fn absorbed_r(&self) -> Seq<u8> { self.absorbed@ } #[verifier::external_body] fn reset(&mut self) { unimplemented!() } }
impl FixedOutput for Sha256 {
    #[verifier::external_body] fn finalize_into(self, out: &mut GenericArray<u8, Self::OutputSize>) { unimplemented!() }
    #[verifier::external_body] fn finalize_into_reset(&mut self, out: &mut GenericArray<u8, Self::OutputSize>) { unimplemented!() }
    #[verifier::external_body] fn finalize_fixed(self) -> GenericArray<u8, Self::OutputSize> { unimplemented!() }
}
impl OutSize for Sha512 { type OutputSize = U64; }
impl BlockInput for Sha512 { type BlockSize = U128; }
impl Reset for Sha512 { open spec fn absorbed_r(&self) -> Seq<u8> { self.absorbed@ } #[verifier::external_body] fn reset(&mut self) { unimplemented!() } }
impl FixedOutput for Sha512 {
    #[verifier::external_body] fn finalize_into(self, out: &mut GenericArray<u8, Self::OutputSize>) { unimplemented!() }
    #[verifier::external_body] fn finalize_into_reset(&mut self, out: &mut GenericArray<u8, Self::OutputSize>) { unimplemented!() }
    #[verifier::external_body] fn finalize_fixed(self) -> GenericArray<u8, Self::OutputSize> { unimplemented!() }
}
impl OutSize for Sha1 { type OutputSize = U20; }
impl BlockInput for Sha1 { type BlockSize = U64; }
impl Reset for Sha1 { open spec fn absorbed_r(&self) -> Seq<u8> { self.absorbed@ } #[verifier::external_body] fn reset(&mut self) { unimplemented!() } }
impl FixedOutput for Sha1 {
    #[verifier::external_body] fn finalize_into(self, out: &mut GenericArray<u8, Self::OutputSize>) { unimplemented!() }
    #[verifier::external_body] fn finalize_into_reset(&mut self, out: &mut GenericArray<u8, Self::OutputSize>) { unimplemented!() }
    #[verifier::external_body] fn finalize_fixed(self) -> GenericArray<u8, Self::OutputSize> { unimplemented!() }
}
impl OutSize for Ripemd160 { type OutputSize = U20; }
impl BlockInput for Ripemd160 { type BlockSize = U64; }
impl Reset for Ripemd160 { open spec fn absorbed_r(&self) -> Seq<u8> { self.absorbed@ } #[verifier::external_body] fn reset(&mut self) { unimplemented!() } }
impl FixedOutput for Ripemd160 {
    #[verifier::external_body] fn finalize_into(self, out: &mut GenericArray<u8, Self::OutputSize>) { unimplemented!() }
    #[verifier::external_body] fn finalize_into_reset(&mut self, out: &mut GenericArray<u8, Self::OutputSize>) { unimplemented!() }
    #[verifier::external_body] fn finalize_fixed(self) -> GenericArray<u8, Self::OutputSize> { unimplemented!() }
}
// ---- pbkdf2::pbkdf2::<PRF> (assumed): fills the whole output buffer with PBKDF2(PRF, password, salt, rounds) ----
pub uninterp spec fn spec_pbkdf2<F>(password: Seq<u8>, salt: Seq<u8>, rounds: u32, len: nat) -> Seq<u8>;
#[verifier::external_body]
pub fn pbkdf2<F>(password: &[u8], salt: &[u8], rounds: u32, res: &mut Vec<u8>)
    ensures final(res)@ == spec_pbkdf2::<F>(password@, salt@, rounds, old(res)@.len()), final(res)@.len() == old(res)@.len()
{ unimplemented!() }
