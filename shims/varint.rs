// ---- crate::traits::varint reader/writer: contracts ASSUMED here and PROVED by Kani on the real functions
// (harnesses write_varint_vec_all_u64, read_varint_cursor_all_prefixes: loop-free, all u64 / all buffers of <= 9 bytes);
// the bodies use &mut-capturing closures, which Verus cannot take. ----
pub trait VarIntWriter {
    spec fn vw(&self) -> Seq<u8>;
    fn write_varint(&mut self, n: u64) -> (r: Result<usize, IoError>)
        ensures r is Ok, final(self).vw() == old(self).vw() + varint(n);
}
impl VarIntWriter for Vec<u8> {
    open spec fn vw(&self) -> Seq<u8> { self@ }
    #[verifier::external_body] fn write_varint(&mut self, n: u64) -> (r: Result<usize, IoError>) { unimplemented!() }
}
pub trait VarIntReader: CurView + Sized {
    fn read_varint(&mut self) -> (r: Result<u64, IoError>)
        ensures match r {
            Ok(v) => parse_varint(old(self).rest()) is Some && parse_varint(old(self).rest())->Some_0.0 == v && rd_ok(old(self), final(self), parse_varint(old(self).rest())->Some_0.1),
            Err(_) => parse_varint(old(self).rest()) is None && final(self).all() == old(self).all() };
}
impl VarIntReader for Cursor<Vec<u8>> {
    #[verifier::external_body] fn read_varint(&mut self) -> (r: Result<u64, IoError>) { unimplemented!() }
}
