// ---- text primitives of the BIP32 path syntax (ASSUMED, uninterpreted; used only through @subst in derive_from_path_impl) ----
pub uninterp spec fn str_ascii_lower(s: Seq<char>) -> Seq<char>;               // str::to_ascii_lowercase
pub uninterp spec fn str_starts_with_char(s: Seq<char>, c: char) -> bool;     // str::starts_with(char)
pub uninterp spec fn path_segments(s: Seq<char>) -> Seq<Seq<char>>;           // s[1..].split('/').filter(|x| !x.is_empty()), in order
#[verifier::external_body] pub fn to_ascii_lowercase_v(s: &str) -> (r: String) ensures r@ == str_ascii_lower(s@) { unimplemented!() }
#[verifier::external_body] pub fn starts_with_char_v(s: &String, c: char) -> (r: bool) ensures r == str_starts_with_char(s@, c) { unimplemented!() }
#[verifier::external_body] pub fn nonempty_segments_after_first_v<'a>(s: &'a str, sep: char) -> (r: Vec<&'a str>)
    requires sep == '/'
    ensures r@.len() == path_segments(s@).len(), forall|j: int| 0 <= j < r@.len() ==> (#[trigger] r@[j])@ == path_segments(s@)[j]
{ unimplemented!() }
