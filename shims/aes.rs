// ================= shim of aes / block-modes / cipher (assumed): standard AES-CBC(PKCS#7) and AES-CTR =================
pub struct Pkcs7; pub struct Aes128; pub struct Aes256; pub struct Aes128Ctr { pub st: CtrState } pub struct Aes256Ctr { pub st: CtrState }
pub trait KeyLen { spec fn key_len() -> nat; }
impl KeyLen for Aes128 { open spec fn key_len() -> nat { 16 } }
impl KeyLen for Aes256 { open spec fn key_len() -> nat { 32 } }
impl KeyLen for Aes128Ctr { open spec fn key_len() -> nat { 16 } }
impl KeyLen for Aes256Ctr { open spec fn key_len() -> nat { 32 } }
pub uninterp spec fn spec_cbc_enc<C>(key: Seq<u8>, iv: Seq<u8>, msg: Seq<u8>) -> Seq<u8>;
pub uninterp spec fn spec_cbc_dec<C>(key: Seq<u8>, iv: Seq<u8>, ct: Seq<u8>) -> Option<Seq<u8>>;   // None: bad length or padding
pub uninterp spec fn spec_ctr<C>(key: Seq<u8>, iv: Seq<u8>, offset: u64, data: Seq<u8>) -> Seq<u8>;  // keystream from block offset, IV = initial counter
pub struct Cbc<C, P> { pub key: Ghost<Seq<u8>>, pub iv: Ghost<Seq<u8>>, pub _c: core::marker::PhantomData<(C, P)> }
impl<C: KeyLen, P> Cbc<C, P> {
    #[verifier::external_body]
    pub fn new_from_slices(key: &[u8], iv: &[u8]) -> (r: Result<Self, InvalidKeyIvLength>)
        ensures r is Ok <==> (key@.len() == C::key_len() && iv@.len() == 16), r is Ok ==> r->Ok_0.key@ == key@ && r->Ok_0.iv@ == iv@
    { unimplemented!() }
    #[verifier::external_body]
    pub fn encrypt_vec(self, buffer: &[u8]) -> (r: Vec<u8>) ensures r@ == spec_cbc_enc::<C>(self.key@, self.iv@, buffer@) { unimplemented!() }
    #[verifier::external_body]
    pub fn decrypt_vec(self, buffer: &[u8]) -> (r: Result<Vec<u8>, BlockModeError>)
        ensures match spec_cbc_dec::<C>(self.key@, self.iv@, buffer@) { Some(p) => r is Ok && r->Ok_0@ == p, None => r is Err }
    { unimplemented!() }
}
pub struct CipherInvalidLength;
pub struct ArrArg<'a> { pub bytes: &'a [u8] }
impl<'a> From<&'a [u8]> for ArrArg<'a> { #[verifier::external_body] fn from(s: &'a [u8]) -> (r: ArrArg<'a>) ensures r.bytes@ == s@ { unimplemented!() } }
pub trait NewCipher: Sized + KeyLen {
    spec fn ckey(&self) -> Seq<u8>; spec fn civ(&self) -> Seq<u8>; spec fn cpos(&self) -> u64;
    // GenericArray::from_slice asserts the exact length: the documented panic condition is the precondition
    fn new(key: ArrArg, iv: ArrArg) -> (r: Self)
        requires key.bytes@.len() == Self::key_len(), iv.bytes@.len() == 16 // [pre.generic_array_exact_length]
        ensures r.ckey() == key.bytes@, r.civ() == iv.bytes@, r.cpos() == 0;
    fn new_from_slices(key: &[u8], iv: &[u8]) -> (r: Result<Self, CipherInvalidLength>)
        ensures r is Ok <==> (key@.len() == Self::key_len() && iv@.len() == 16), r is Ok ==> r->Ok_0.ckey() == key@ && r->Ok_0.civ() == iv@ && r->Ok_0.cpos() == 0;
}
pub trait StreamCipherSeek: NewCipher { fn seek(&mut self, pos: u64) ensures final(self).ckey() == old(self).ckey(), final(self).civ() == old(self).civ(), final(self).cpos() == pos; }
pub trait StreamCipher: NewCipher {
    fn apply_keystream(&mut self, data: &mut Vec<u8>)
        ensures final(data)@ == spec_ctr::<Self>(old(self).ckey(), old(self).civ(), old(self).cpos(), old(data)@);
}
pub struct CtrState { pub key: Ghost<Seq<u8>>, pub iv: Ghost<Seq<u8>>, pub pos: Ghost<u64> }
impl NewCipher for Aes128Ctr {
    open spec fn ckey(&self) -> Seq<u8> { self.st.key@ } open spec fn civ(&self) -> Seq<u8> { self.st.iv@ } open spec fn cpos(&self) -> u64 { self.st.pos@ }
    #[verifier::external_body] fn new(key: ArrArg, iv: ArrArg) -> (r: Self) { unimplemented!() }
    #[verifier::external_body] fn new_from_slices(key: &[u8], iv: &[u8]) -> (r: Result<Self, CipherInvalidLength>) { unimplemented!() }
}
impl StreamCipherSeek for Aes128Ctr { #[verifier::external_body] fn seek(&mut self, pos: u64) { unimplemented!() } }
impl StreamCipher for Aes128Ctr { #[verifier::external_body] fn apply_keystream(&mut self, data: &mut Vec<u8>) { unimplemented!() } }
impl NewCipher for Aes256Ctr {
    open spec fn ckey(&self) -> Seq<u8> { self.st.key@ } open spec fn civ(&self) -> Seq<u8> { self.st.iv@ } open spec fn cpos(&self) -> u64 { self.st.pos@ }
    #[verifier::external_body] fn new(key: ArrArg, iv: ArrArg) -> (r: Self) { unimplemented!() }
    #[verifier::external_body] fn new_from_slices(key: &[u8], iv: &[u8]) -> (r: Result<Self, CipherInvalidLength>) { unimplemented!() }
}
impl StreamCipherSeek for Aes256Ctr { #[verifier::external_body] fn seek(&mut self, pos: u64) { unimplemented!() } }
impl StreamCipher for Aes256Ctr { #[verifier::external_body] fn apply_keystream(&mut self, data: &mut Vec<u8>) { unimplemented!() } }
pub mod block_modes { pub use super::InvalidKeyIvLength; }
// ---- algebraic facts of the standard algorithms (named axioms, listed in the evidence) ----
pub axiom fn axiom_cbc_dec_enc<C>(key: Seq<u8>, iv: Seq<u8>, m: Seq<u8>) ensures spec_cbc_dec::<C>(key, iv, spec_cbc_enc::<C>(key, iv, m)) == Some(m);
pub axiom fn axiom_cbc_len<C>(key: Seq<u8>, iv: Seq<u8>, m: Seq<u8>) ensures spec_cbc_enc::<C>(key, iv, m).len() == (m.len() / 16 + 1) * 16;
pub axiom fn axiom_ctr_involutive<C>(key: Seq<u8>, iv: Seq<u8>, m: Seq<u8>) ensures spec_ctr::<C>(key, iv, 0, spec_ctr::<C>(key, iv, 0, m)) == m, spec_ctr::<C>(key, iv, 0, m).len() == m.len();
