// digest trait bundle required by sign_preimage_deterministic_k (the real bound list, as shim traits)
pub mod digest { pub mod consts { pub struct U32; } pub use super::BlockInput; pub use super::Reset; pub use super::Update; }
pub trait BlockInput {} pub trait Reset {} pub trait Update {}
pub trait ReversibleDigest: Sized { fn reverse(&self) -> Self; }
pub trait FixedOutput: Sized { type OutputSize; spec fn fo_final(&self) -> Seq<u8>;
    fn finalize_fixed(self) -> (r: FieldBytes) ensures r@ == self.fo_final(); }
pub type Sha256r = Sha256rV;
impl BlockInput for Sha256rV {} impl Reset for Sha256rV {} impl Update for Sha256rV {}
impl Clone for Sha256rV { #[verifier::external_body] fn clone(&self) -> (r: Self) ensures r == *self { unimplemented!() } }
impl Default for Sha256rV { #[verifier::external_body] fn default() -> (r: Self) ensures !r.reverse, r.absorbed@ == Seq::<u8>::empty() { unimplemented!() } }
impl ReversibleDigest for Sha256rV { #[verifier::external_body] fn reverse(&self) -> (r: Self) ensures r.reverse, r.absorbed@ == self.absorbed@ { unimplemented!() } }
impl FixedOutput for Sha256rV { type OutputSize = digest::consts::U32;
    open spec fn fo_final(&self) -> Seq<u8> { self.hd_final() }
    #[verifier::external_body] fn finalize_fixed(self) -> (r: FieldBytes) { unimplemented!() } }
impl Sha256rV { #[verifier::external_body] pub fn finalize(self) -> (r: FieldBytes) ensures r@ == self.hd_final() { unimplemented!() } }
#[verifier::external_body] pub fn get_hash_digest(hash_algo: SigningHash, preimage: &[u8]) -> (r: Sha256rV)
    ensures hash_algo is Sha256 ==> r.hd_absorbed() == preimage@ && !r.hd_reversed(), hash_algo is Sha256d ==> r.hd_absorbed() == spec_sha256(preimage@) && !r.hd_reversed() { unimplemented!() }
pub struct Sha256; pub struct Sha256d;
