// vec![e; n] (macro M3) in decoder units (C09): an allocation must be bounded by a fixed multiple of the INPUT
// length.  input_len() is an uninterpreted constant tied to the entry point's argument by its precondition
// `bytes@.len() == input_len()`, so the proof is for every input length.
pub uninterp spec fn input_len() -> nat;
pub open spec fn alloc_budget() -> nat { 2 * input_len() + 64 }
#[verifier::external_body]
pub fn alloc_fill_v(e: u8, n: usize) -> (r: Vec<u8>)
    requires n <= alloc_budget(), // [alloc.bounded_by_input]
    ensures r@ == filled(e, n as nat)
{ unimplemented!() }
