// vec![e; n] (macro M3) in the C09 variant of the decoder units: alloc_budget() is an UNINTERPRETED bound that every
// decoder entry point requires to be at least its input length (so the proof covers budget == input length, for every
// input); each allocation must then be bounded by a fixed multiple of it plus a constant.
pub uninterp spec fn alloc_budget() -> nat;
#[verifier::external_body]
pub fn alloc_fill_v(e: u8, n: usize) -> (r: Vec<u8>)
    requires n <= 2 * alloc_budget() + 128, // [alloc.bounded_by_input_length]
    ensures r@ == filled(e, n as nat)
{ unimplemented!() }
// Vec::with_capacity(n) (rule R25): an allocation of n elements up front
#[verifier::external_body]
pub fn vec_with_capacity_v<T>(n: usize) -> (r: Vec<T>)
    requires n <= 2 * alloc_budget() + 128, // [alloc.bounded_by_input_length]
    ensures r@ == Seq::<T>::empty()
{ unimplemented!() }
