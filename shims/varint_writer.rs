// crate::traits::varint::VarIntWriter for Vec<u8> (contract ASSUMED here, PROVED by Kani harness write_varint_vec_all_u64)
pub trait VarIntWriter {
    spec fn vw(&self) -> Seq<u8>;
    fn write_varint(&mut self, n: u64) -> (r: Result<usize, IoError>)
        ensures r is Ok, final(self).vw() == old(self).vw() + varint(n);
}
impl VarIntWriter for Vec<u8> {
    open spec fn vw(&self) -> Seq<u8> { self@ }
    #[verifier::external_body] fn write_varint(&mut self, n: u64) -> (r: Result<usize, IoError>) { unimplemented!() }
}
