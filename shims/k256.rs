// ================= shim of k256 / ecdsa / elliptic-curve / hex / bs58 (ASSUMED contracts) =================
// Abstract model: a scalar is identified with its canonical 32-byte big-endian encoding, a curve point with its
// 33-byte compressed SEC1 encoding; every cryptographic operation is an uninterpreted function of those.
// The dependency crates are assumed to compute these functions; nothing here is proved about the mathematics.
pub ghost struct SigV { pub r: Seq<u8>, pub s: Seq<u8> }
pub uninterp spec fn valid_secret(b: Seq<u8>) -> bool;                 // 32 bytes encoding d with 1 <= d < n
pub uninterp spec fn pub_of(d: Seq<u8>) -> Seq<u8>;                    // compressed SEC1 of d*G
pub uninterp spec fn sec1_valid(b: Seq<u8>) -> bool;                   // b is the SEC1 encoding (33 or 65 bytes) of a non-identity curve point
pub uninterp spec fn sec1_framing_ok(b: Seq<u8>) -> bool;              // tag byte and length are consistent (00 / 02,03 + 32 / 04 + 64)
pub uninterp spec fn sec1_point(b: Seq<u8>) -> Seq<u8>;                // canonical (compressed) id of the point encoded by b
pub uninterp spec fn sec1_form(pt: Seq<u8>, compressed: bool) -> Seq<u8>;   // 33- or 65-byte encoding of point pt
pub uninterp spec fn sec1_is_compressed(b: Seq<u8>) -> bool;           // tag byte 02 / 03
pub uninterp spec fn pt_mul(pt: Seq<u8>, sc: Seq<u8>) -> Seq<u8>;
pub uninterp spec fn pt_add(a: Seq<u8>, b: Seq<u8>) -> Option<Seq<u8>>;    // None: the identity
pub uninterp spec fn sc_add(a: Seq<u8>, b: Seq<u8>) -> Seq<u8>;        // (a + b) mod n, 32 bytes (may be zero)
pub uninterp spec fn reduce_be(b: Seq<u8>) -> Seq<u8>;                 // big-endian integer of b reduced mod n
pub uninterp spec fn reduce_le(b: Seq<u8>) -> Seq<u8>;                 // little-endian integer of b reduced mod n
pub uninterp spec fn ecdsa_sign(d: Seq<u8>, k: Seq<u8>, z: Seq<u8>) -> Option<(SigV, bool, bool)>;   // low-S normalised (r, s), y_odd, x_reduced
pub uninterp spec fn ecdsa_verify(pt: Seq<u8>, z: Seq<u8>, sig: SigV) -> bool;
pub uninterp spec fn ecdsa_recover(sig: SigV, y_odd: bool, x_reduced: bool, z: Seq<u8>) -> Option<Seq<u8>>;
pub uninterp spec fn rfc6979_k<D>(d: Seq<u8>, z: Seq<u8>, extra: Seq<u8>) -> Seq<u8>;   // RFC 6979 nonce with HMAC over hash D
pub uninterp spec fn der_enc(sig: SigV) -> Seq<u8>;
pub uninterp spec fn der_dec(b: Seq<u8>) -> Option<SigV>;              // strict DER of two in-range non-zero integers, no trailing bytes
pub uninterp spec fn valid_sig_scalars(r: Seq<u8>, s: Seq<u8>) -> bool;    // both 32 bytes, non-zero, < n

// ---- named axioms (each listed in the evidence under trusted_base) ----
pub axiom fn axiom_der_roundtrip(sig: SigV) requires valid_sig_scalars(sig.r, sig.s) ensures der_dec(der_enc(sig)) == Some(sig);
pub axiom fn axiom_der_dec_valid(b: Seq<u8>) ensures der_dec(b) is Some ==> valid_sig_scalars(der_dec(b)->Some_0.r, der_dec(b)->Some_0.s) && der_enc(der_dec(b)->Some_0) == b;
pub axiom fn axiom_der_no_trailing(b: Seq<u8>, x: u8) ensures der_dec(b) is Some ==> der_dec(b.push(x)) is None;
pub axiom fn axiom_sec1_forms(pt: Seq<u8>, c: bool) ensures sec1_valid(sec1_form(pt, c)) ==> sec1_point(sec1_form(pt, c)) == pt && sec1_is_compressed(sec1_form(pt, c)) == c && sec1_framing_ok(sec1_form(pt, c));
pub axiom fn axiom_sec1_valid_framing(b: Seq<u8>) ensures sec1_valid(b) ==> sec1_framing_ok(b) && sec1_form(sec1_point(b), sec1_is_compressed(b)) == b;
pub axiom fn axiom_pub_valid(d: Seq<u8>, c: bool) ensures valid_secret(d) ==> sec1_valid(sec1_form(pub_of(d), c));
pub axiom fn axiom_sign_verifies(d: Seq<u8>, k: Seq<u8>, z: Seq<u8>) ensures ecdsa_sign(d, k, z) is Some && valid_secret(d) ==> ecdsa_verify(pub_of(d), z, ecdsa_sign(d, k, z)->Some_0.0);
// a k256 Signature value always holds scalars in [1, n-1] (its type invariant)
pub axiom fn axiom_sign_valid_scalars(d: Seq<u8>, k: Seq<u8>, z: Seq<u8>) ensures ecdsa_sign(d, k, z) is Some ==> valid_sig_scalars(ecdsa_sign(d, k, z)->Some_0.0.r, ecdsa_sign(d, k, z)->Some_0.0.s);
pub axiom fn axiom_sign_recovers(d: Seq<u8>, k: Seq<u8>, z: Seq<u8>) ensures ecdsa_sign(d, k, z) is Some && valid_secret(d) ==> ({ let (sg, y, x) = ecdsa_sign(d, k, z)->Some_0; ecdsa_recover(sg, y, x, z) == Some(pub_of(d)) && valid_sig_scalars(sg.r, sg.s) });
pub axiom fn axiom_ecdh_commutes(a: Seq<u8>, b: Seq<u8>) ensures pt_mul(pub_of(a), b) == pt_mul(pub_of(b), a);
pub axiom fn axiom_bip32_distributes(k: Seq<u8>, il: Seq<u8>) ensures valid_secret(sc_add(k, il)) ==> pt_add(pub_of(k), pub_of(il)) == Some(pub_of(sc_add(k, il)));

// ---- field / scalar containers ----
#[derive(Clone, Copy)]
pub struct FieldBytes { pub g: Ghost<Seq<u8>> }
impl View for FieldBytes { type V = Seq<u8>; open spec fn view(&self) -> Seq<u8> { self.g@ } }
impl FieldBytes {
    // GenericArray::from_slice asserts the exact length: the documented panic condition is the precondition
    #[verifier::external_body] pub fn from_slice<'a>(s: &'a [u8]) -> (r: &'a FieldBytes) requires s@.len() == 32 ensures r@ == s@ { unimplemented!() }
    #[verifier::external_body] pub fn to_vec(&self) -> (r: Vec<u8>) ensures r@ == self@ { unimplemented!() }
    #[verifier::external_body] pub fn as_slice(&self) -> (r: &[u8]) ensures r@ == self@ { unimplemented!() }
}
impl core::ops::Deref for FieldBytes { type Target = [u8];
    #[verifier::external_body] fn deref(&self) -> (r: &[u8]) ensures r@ == self@ { unimplemented!() } }
#[derive(Clone, Copy)]
pub struct Scalar { pub v: Ghost<Seq<u8>> }
#[derive(Clone, Copy)]
pub struct NonZeroScalar { pub v: Ghost<Seq<u8>> }
impl core::ops::Deref for NonZeroScalar { type Target = Scalar;
    #[verifier::external_body] fn deref(&self) -> (r: &Scalar) ensures r.v@ == self.v@ { unimplemented!() } }
impl NonZeroScalar {
    #[verifier::external_body] pub fn to_bytes(&self) -> (r: FieldBytes) ensures r@ == self.v@, r@.len() == 32 { unimplemented!() }
}
impl Scalar {
    #[verifier::external_body] pub fn to_bytes(&self) -> (r: FieldBytes) ensures r@ == self.v@, r@.len() == 32 { unimplemented!() }
}

// ---- secret key ----
pub struct SecretKey { pub d: Ghost<Seq<u8>> }
impl Clone for SecretKey { #[verifier::external_body] fn clone(&self) -> (r: Self) ensures r == *self { unimplemented!() } }
impl SecretKey {
    #[verifier::external_body] pub fn from_be_bytes(bytes: &[u8]) -> (r: Result<SecretKey, CurveError>)
        ensures match r { Ok(k) => valid_secret(bytes@) && k.d@ == bytes@ && bytes@.len() == 32, Err(_) => !valid_secret(bytes@) } { unimplemented!() }
    #[verifier::external_body] pub fn to_be_bytes(&self) -> (r: FieldBytes) ensures r@ == self.d@, r@.len() == 32 { unimplemented!() }
    #[verifier::external_body] pub fn to_be_bytes_v(&self) -> (r: FieldBytes) ensures r@ == self.d@, r@.len() == 32 { unimplemented!() }  // (name after rule R1)
    #[verifier::external_body] pub fn to_nonzero_scalar(&self) -> (r: NonZeroScalar) ensures r.v@ == self.d@ { unimplemented!() }
}

// ---- ECDSA signature ----
#[derive(Clone, Copy)]
pub struct SecpSignature { pub v: Ghost<SigV> }
pub struct DerSignature { pub b: Ghost<Seq<u8>> }
impl DerSignature { #[verifier::external_body] pub fn as_bytes(&self) -> (r: &[u8]) ensures r@ == self.b@ { unimplemented!() } }
impl AsRef<[u8]> for DerSignature { open spec fn bytes_v(&self) -> Seq<u8> { self.b@ } #[verifier::external_body] fn as_ref(&self) -> (r: &[u8]) { unimplemented!() } }
impl SecpSignature {
    #[verifier::external_body] pub fn from_der(bytes: &[u8]) -> (r: Result<SecpSignature, EcdsaError>)
        ensures match r { Ok(s) => der_dec(bytes@) == Some(s.v@), Err(_) => der_dec(bytes@) is None } { unimplemented!() }
    #[verifier::external_body] pub fn to_der(&self) -> (r: DerSignature) ensures r.b@ == der_enc(self.v@) { unimplemented!() }
    #[verifier::external_body] pub fn from_scalars(r: FieldBytes, s: FieldBytes) -> (res: Result<SecpSignature, EcdsaError>)
        ensures match res { Ok(sg) => valid_sig_scalars(r@, s@) && sg.v@ == (SigV { r: r@, s: s@ }), Err(_) => !valid_sig_scalars(r@, s@) } { unimplemented!() }
    #[verifier::external_body] pub fn r(&self) -> (r: NonZeroScalar) ensures r.v@ == self.v@.r { unimplemented!() }
    #[verifier::external_body] pub fn s(&self) -> (r: NonZeroScalar) ensures r.v@ == self.v@.s { unimplemented!() }
    // normalize_s: Some(signature with s replaced by n - s) when s is in the upper half of the range, None when it is already low
    #[verifier::external_body] pub fn normalize_s(&self) -> (r: Option<SecpSignature>)
        ensures match r { Some(t) => !low_s(self.v@.s) && t.v@ == (SigV { r: self.v@.r, s: sc_neg(self.v@.s) }) && sc_neg(self.v@.s) != self.v@.s, None => low_s(self.v@.s) } { unimplemented!() }
}
pub uninterp spec fn low_s(s: Seq<u8>) -> bool;      // s <= n/2
pub uninterp spec fn sc_neg(s: Seq<u8>) -> Seq<u8>;  // n - s
impl EcdsaError { #[verifier::external_body] pub fn new() -> (r: EcdsaError) { unimplemented!() } }

// ---- public-key recovery ----
#[derive(Clone, Copy)]
pub struct RecoveryId { pub y_odd: bool, pub x_reduced: bool }
impl RecoveryId {
    #[verifier::external_body] pub fn new(is_y_odd: bool, is_x_reduced: bool) -> (r: RecoveryId) ensures r.y_odd == is_y_odd, r.x_reduced == is_x_reduced { unimplemented!() }
    #[verifier::external_body] pub fn is_y_odd(&self) -> (r: bool) ensures r == self.y_odd { unimplemented!() }
    #[verifier::external_body] pub fn is_x_reduced(&self) -> (r: bool) ensures r == self.x_reduced { unimplemented!() }
}
pub mod recoverable {
    use super::*;
    // k256's recoverable::Id only represents the two non-reduced recovery ids (0, 1)
    #[derive(Clone, Copy)]
    pub struct Id { pub y_odd: bool }
    impl TryFrom<RecoveryId> for Id { type Error = EcdsaError;
        #[verifier::external_body] fn try_from(id: RecoveryId) -> (r: Result<Id, EcdsaError>)
            ensures match r { Ok(i) => !id.x_reduced && i.y_odd == id.y_odd, Err(_) => id.x_reduced } { unimplemented!() } }
    impl From<Id> for RecoveryId { #[verifier::external_body] fn from(i: Id) -> (r: RecoveryId) ensures r.y_odd == i.y_odd, !r.x_reduced { unimplemented!() } }
    #[derive(Clone, Copy)]
    pub struct Signature { pub sig: Ghost<SigV>, pub y_odd: bool }
    impl Signature {
        // recoverable::Signature::new only packs (r, s, id) into 65 bytes: it cannot fail for a well-formed signature
        #[verifier::external_body] pub fn new(sig: &SecpSignature, id: Id) -> (r: Result<Signature, EcdsaError>)
            ensures r is Ok && r->Ok_0.sig@ == sig.v@ && r->Ok_0.y_odd == id.y_odd { unimplemented!() }
        #[verifier::external_body] pub fn recovery_id(&self) -> (r: Id) ensures r.y_odd == self.y_odd { unimplemented!() }
        #[verifier::external_body] pub fn recover_verify_key_from_digest<D: HashDigest>(&self, digest: D) -> (r: Result<VerifyingKey, EcdsaError>)
            ensures match r { Ok(k) => ecdsa_recover(self.sig@, self.y_odd, false, reduce_be(digest.hd_final())) == Some(k.pt@), Err(_) => ecdsa_recover(self.sig@, self.y_odd, false, reduce_be(digest.hd_final())) is None } { unimplemented!() }
        #[verifier::external_body] pub fn recover_verify_key_from_digest_bytes(&self, digest: &FieldBytes) -> (r: Result<VerifyingKey, EcdsaError>)
            ensures match r { Ok(k) => ecdsa_recover(self.sig@, self.y_odd, false, reduce_be(digest@)) == Some(k.pt@), Err(_) => ecdsa_recover(self.sig@, self.y_odd, false, reduce_be(digest@)) is None } { unimplemented!() }
    }
    impl From<Signature> for SecpSignature { #[verifier::external_body] fn from(s: Signature) -> (r: SecpSignature) ensures r.v@ == s.sig@ { unimplemented!() } }
}
pub mod ecdsa { pub use super::RecoveryId; pub use super::EcdsaError as Error; }
pub struct VerifyingKey { pub pt: Ghost<Seq<u8>> }
pub struct Secp256k1;
pub struct Sec1Error;
impl Sec1Error { #[verifier::external_body] pub fn to_string(&self) -> String { unimplemented!() } }
pub struct EncodedPoint<C = Secp256k1> { pub b: Ghost<Seq<u8>>, pub _c: core::marker::PhantomData<C> }
impl<C> Clone for EncodedPoint<C> { #[verifier::external_body] fn clone(&self) -> (r: Self) ensures r.b@ == self.b@ { unimplemented!() } }
pub enum Coordinates<'a> { Identity, Compact { x: &'a FieldBytes }, Compressed { x: &'a FieldBytes, y_is_odd: bool }, Uncompressed { x: &'a FieldBytes, y: &'a FieldBytes } }
// the coordinates a SEC1 string carries, as spec functions of the bytes
pub uninterp spec fn sec1_tag(b: Seq<u8>) -> int;   // 0 identity, 2/3 compressed, 4 uncompressed, 5 compact
impl<C> EncodedPoint<C> {
    #[verifier::external_body] pub fn from_bytes<S: AsRef<[u8]>>(bytes: S) -> (r: Result<EncodedPoint<C>, Sec1Error>)
        ensures match r { Ok(p) => sec1_framing_ok(bytes.bytes_v()) && p.b@ == bytes.bytes_v(), Err(_) => !sec1_framing_ok(bytes.bytes_v()) } { unimplemented!() }
    #[verifier::external_body] pub fn as_bytes(&self) -> (r: &[u8]) ensures r@ == self.b@ { unimplemented!() }
    #[verifier::external_body] pub fn is_compressed(&self) -> (r: bool) ensures r == sec1_is_compressed(self.b@) { unimplemented!() }
    // re-encodes the same point in compressed form (identity stays identity)
    #[verifier::external_body] pub fn compress(&self) -> (r: EncodedPoint<C>)
        ensures sec1_valid(self.b@) ==> r.b@ == sec1_form(sec1_point(self.b@), true) { unimplemented!() }
    #[verifier::external_body] pub fn coordinates<'a>(&'a self) -> (r: Coordinates<'a>)
        ensures sec1_valid(self.b@) ==> (match r { Coordinates::Compressed { x, y_is_odd } => sec1_is_compressed(self.b@) && decompress_spec(x@, y_is_odd) == Some(sec1_point(self.b@)),
                                                  Coordinates::Uncompressed { x, y } => !sec1_is_compressed(self.b@), _ => false }) { unimplemented!() }
}
pub uninterp spec fn decompress_spec(x: Seq<u8>, y_is_odd: bool) -> Option<Seq<u8>>;   // the curve point with this x and y parity, if any
pub struct Choice { pub v: bool }
impl From<u8> for Choice { #[verifier::external_body] fn from(b: u8) -> (r: Choice) ensures r.v == (b != 0) { unimplemented!() } }
pub struct CtOption<T> { pub o: Option<T> }
impl<T> CtOption<T> {
    #[verifier::external_body] pub fn map<U, F: FnOnce(T) -> U>(self, f: F) -> (r: CtOption<U>)
        requires self.o is Some ==> f.requires((self.o->Some_0,))
        ensures self.o is None ==> r.o is None, self.o is Some ==> r.o is Some && f.ensures((self.o->Some_0,), r.o->Some_0) { unimplemented!() }
}
impl<T> From<CtOption<T>> for Option<T> { #[verifier::external_body] fn from(c: CtOption<T>) -> (r: Option<T>) ensures r == c.o { unimplemented!() } }
pub struct AffinePoint<C = Secp256k1> { pub pt: Ghost<Seq<u8>>, pub _c: core::marker::PhantomData<C> }
impl AffinePoint {
    #[verifier::external_body] pub fn decompress(x: &FieldBytes, y_is_odd: Choice) -> (r: CtOption<AffinePoint>)
        ensures match r.o { Some(p) => decompress_spec(x@, y_is_odd.v) == Some(p.pt@), None => decompress_spec(x@, y_is_odd.v) is None } { unimplemented!() }
    #[verifier::external_body] pub fn to_encoded_point(&self, compress: bool) -> (r: EncodedPoint) ensures r.b@ == sec1_form(self.pt@, compress), sec1_valid(r.b@) { unimplemented!() }
}
pub struct K256PublicKey { pub pt: Ghost<Seq<u8>> }
impl K256PublicKey {
    #[verifier::external_body] pub fn from_sec1_bytes(bytes: &[u8]) -> (r: Result<K256PublicKey, CurveError>)
        ensures match r { Ok(p) => sec1_valid(bytes@) && p.pt@ == sec1_point(bytes@), Err(_) => !sec1_valid(bytes@) } { unimplemented!() }
    #[verifier::external_body] pub fn as_affine(&self) -> (r: &AffinePoint) ensures r.pt@ == self.pt@ { unimplemented!() }
    #[verifier::external_body] pub fn to_encoded_point(&self, compress: bool) -> (r: EncodedPoint) ensures r.b@ == sec1_form(self.pt@, compress), sec1_valid(r.b@) { unimplemented!() }
}
impl SecretKey {
    #[verifier::external_body] pub fn public_key(&self) -> (r: K256PublicKey) ensures r.pt@ == pub_of(self.d@) { unimplemented!() }
}
impl VerifyingKey {
    #[verifier::external_body] pub fn to_encoded_point(&self, compress: bool) -> (r: EncodedPoint) ensures r.b@ == sec1_form(self.pt@, compress), sec1_valid(r.b@) { unimplemented!() }
    // VerifyingKey::to_bytes is the compressed SEC1 form (CompressedPoint), whatever form the signer used
    #[verifier::external_body] pub fn to_bytes(&self) -> (r: [u8; 33]) ensures r@ == sec1_form(self.pt@, true), sec1_valid(r@) { unimplemented!() }
}
// what a finalised 32-byte signing digest is (crate::hash::digest_utils::HashDigest, implemented by Sha256r)
pub trait HashDigest: Sized { spec fn hd_absorbed(&self) -> Seq<u8>; spec fn hd_reversed(&self) -> bool;
    open spec fn hd_final(&self) -> Seq<u8> { if self.hd_reversed() { spec_sha256(self.hd_absorbed()).reverse() } else { spec_sha256(self.hd_absorbed()) } } }
pub struct Sha256rV { pub absorbed: Ghost<Seq<u8>>, pub reverse: bool }
impl HashDigest for Sha256rV { open spec fn hd_absorbed(&self) -> Seq<u8> { self.absorbed@ } open spec fn hd_reversed(&self) -> bool { self.reverse } }
// the message digest selected by SigningHash, as 32 bytes
pub open spec fn signing_digest(algo: SigningHash, msg: Seq<u8>) -> Seq<u8> { if algo is Sha256 { spec_sha256(msg) } else { spec_sha256(spec_sha256(msg)) } }
pub mod k256 { pub mod ecdsa { pub use super::super::SecpSignature as Signature; } pub use super::K256PublicKey as PublicKey; pub use super::SecretKey; }
pub assume_specification<T> [<[T]>::split_last] (s: &[T]) -> (r: Option<(&T, &[T])>)
    ensures s@.len() == 0 ==> r is None, s@.len() > 0 ==> r is Some && *r->Some_0.0 == s@.last() && r->Some_0.1@ == s@.drop_last();
// ---- projective arithmetic used by ECIES / BIP32 ----
pub struct ProjectivePoint { pub pt: Ghost<Option<Seq<u8>>> }   // None: the identity
impl K256PublicKey {
    #[verifier::external_body] pub fn to_projective(&self) -> (r: ProjectivePoint) ensures r.pt@ == Some(self.pt@) { unimplemented!() }
    // from_affine refuses only the identity
    #[verifier::external_body] pub fn from_affine(a: AffineMaybe) -> (r: Result<K256PublicKey, CurveError>)
        ensures match r { Ok(k) => a.pt@ == Some(k.pt@), Err(_) => a.pt@ is None } { unimplemented!() }
}
pub struct AffineMaybe { pub pt: Ghost<Option<Seq<u8>>> }
impl ProjectivePoint {
    #[verifier::external_body] pub fn to_affine(&self) -> (r: AffineMaybe) ensures r.pt@ == self.pt@ { unimplemented!() }
}
// point * non-zero scalar: never the identity for a non-identity point (prime-order group)
impl vstd::std_specs::ops::MulSpecImpl<Scalar> for ProjectivePoint {
    open spec fn obeys_mul_spec() -> bool { true }
    open spec fn mul_req(self, rhs: Scalar) -> bool { true }
    open spec fn mul_spec(self, rhs: Scalar) -> ProjectivePoint { ProjectivePoint { pt: Ghost(match self.pt@ { Some(p) => Some(pt_mul(p, rhs.v@)), None => None }) } }
}
impl core::ops::Mul<Scalar> for ProjectivePoint { type Output = ProjectivePoint;
    #[verifier::external_body] fn mul(self, rhs: Scalar) -> (r: ProjectivePoint) { unimplemented!() } }
// ---- scalar / point arithmetic used by BIP32 ----
pub uninterp spec fn gen_pt() -> Seq<u8>;    // the generator G
pub axiom fn axiom_generator_mul(k: Seq<u8>) ensures pt_mul(gen_pt(), k) == pub_of(k);
impl NonZeroScalar {
    #[verifier::external_body] pub fn add(self, rhs: Scalar) -> (r: Scalar) ensures r.v@ == sc_add(self.v@, rhs.v@) { unimplemented!() }
}
impl ProjectivePoint {
    #[verifier::external_body] pub fn generator_v() -> (r: ProjectivePoint) ensures r.pt@ == Some(gen_pt()) { unimplemented!() }   // ProjectivePoint::GENERATOR (rule R22)
}
pub open spec fn pt_add_opt(a: Option<Seq<u8>>, b: Option<Seq<u8>>) -> Option<Seq<u8>> {
    match (a, b) { (Some(x), Some(y)) => pt_add(x, y), (None, y) => y, (x, None) => x }
}
impl vstd::std_specs::ops::AddSpecImpl<ProjectivePoint> for ProjectivePoint {
    open spec fn obeys_add_spec() -> bool { true }
    open spec fn add_req(self, rhs: ProjectivePoint) -> bool { true }
    open spec fn add_spec(self, rhs: ProjectivePoint) -> ProjectivePoint { ProjectivePoint { pt: Ghost(pt_add_opt(self.pt@, rhs.pt@)) } }
}
impl core::ops::Add<ProjectivePoint> for ProjectivePoint { type Output = ProjectivePoint;
    #[verifier::external_body] fn add(self, rhs: ProjectivePoint) -> (r: ProjectivePoint) { unimplemented!() } }
