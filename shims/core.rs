// ================= shim prelude: assumed contracts on std / byteorder =================
#[verifier::external_body] pub fn fmt_opaque_v() -> String { String::new() }

pub trait FromPrimitive: Sized { spec fn fp_valid(b: u8) -> bool; spec fn fp_disc(&self) -> u8;
    fn from_u8(n: u8) -> (r: Option<Self>) ensures match r { Some(c) => c.fp_disc() == n && Self::fp_valid(n), None => !Self::fp_valid(n) }; }
pub struct IoError;
pub enum IoErrorKind { UnexpectedEof, InvalidData, Other }
impl IoError { #[verifier::external_body] pub fn new(kind: IoErrorKind, msg: &str) -> (r: IoError) { unimplemented!() } }
pub struct EcdsaError;
pub struct CurveError;
pub struct FromHexError;
pub struct Bs58DecodeError;
pub struct GetrandomError;
pub struct SerdeJsonError;
pub struct InvalidKeyIvLength;
pub struct BlockModeError;
pub struct CborSerError;
pub struct CborDeError;
pub struct ParseIntError;
impl ParseIntError { #[verifier::external_body] pub fn to_string(&self) -> String { unimplemented!() } }
pub use std::array::TryFromSliceError;
#[verifier::external_type_specification] #[verifier::external_body] pub struct ExTryFromSliceError(std::array::TryFromSliceError);

pub assume_specification<T, E> [Result::<T, E>::unwrap_or] (o: Result<T, E>, d: T) -> (r: T)
    ensures r == (match o { Ok(v) => v, Err(_) => d });
pub assume_specification<T, F: FnOnce() -> Option<T>> [Option::<T>::or_else] (o: Option<T>, f: F) -> (r: Option<T>)
    requires o is None ==> f.requires(()),
    ensures o is Some ==> r == o, o is None ==> f.ensures((), r);
pub assume_specification<T> [<[T]>::swap] (s: &mut [T], a: usize, b: usize)
    requires a < old(s)@.len(), b < old(s)@.len()
    ensures final(s)@ == old(s)@.update(a as int, old(s)@[b as int]).update(b as int, old(s)@[a as int]);
pub assume_specification<T: Clone> [<[T]>::to_vec] (s: &[T]) -> (r: Vec<T>) ensures r@ == s@;
pub assume_specification<T> [<[T]>::reverse] (s: &mut [T]) ensures final(s)@ == old(s)@.reverse();

pub open spec fn filled(e: u8, n: nat) -> Seq<u8> { Seq::new(n, |i: int| e) }
// ---- little/big endian integer <-> bytes (rule R1) ----
pub open spec fn le16(x: u16) -> Seq<u8> { seq![ x as u8, (x>>8) as u8 ] }
pub open spec fn le32(x: u32) -> Seq<u8> { seq![ x as u8, (x>>8) as u8, (x>>16) as u8, (x>>24) as u8 ] }
pub open spec fn le64(x: u64) -> Seq<u8> { seq![ x as u8, (x>>8) as u8, (x>>16) as u8, (x>>24) as u8, (x>>32) as u8, (x>>40) as u8, (x>>48) as u8, (x>>56) as u8 ] }
pub open spec fn be32(x: u32) -> Seq<u8> { seq![ (x>>24) as u8, (x>>16) as u8, (x>>8) as u8, x as u8 ] }
pub open spec fn be64(x: u64) -> Seq<u8> { seq![ (x>>56) as u8, (x>>48) as u8, (x>>40) as u8, (x>>32) as u8, (x>>24) as u8, (x>>16) as u8, (x>>8) as u8, x as u8 ] }
pub open spec fn un_le16(s: Seq<u8>) -> u16 { (s[0] as u16) | ((s[1] as u16) << 8) }
pub open spec fn un_le32(s: Seq<u8>) -> u32 { (s[0] as u32) | ((s[1] as u32) << 8) | ((s[2] as u32) << 16) | ((s[3] as u32) << 24) }
pub open spec fn un_be32(s: Seq<u8>) -> u32 { (s[3] as u32) | ((s[2] as u32) << 8) | ((s[1] as u32) << 16) | ((s[0] as u32) << 24) }
pub open spec fn un_le64(s: Seq<u8>) -> u64 { (s[0] as u64) | ((s[1] as u64) << 8) | ((s[2] as u64) << 16) | ((s[3] as u64) << 24) | ((s[4] as u64) << 32) | ((s[5] as u64) << 40) | ((s[6] as u64) << 48) | ((s[7] as u64) << 56) }

pub trait LeBytesV { type Out; fn to_le_bytes_v(self) -> Self::Out; }
pub trait BeBytesV { type Out; fn to_be_bytes_v(self) -> Self::Out; }
impl LeBytesV for u8  { type Out = [u8;1]; #[verifier::external_body] fn to_le_bytes_v(self) -> (r: [u8;1]) ensures r@ == seq![self] { unimplemented!() } }
impl LeBytesV for u16 { type Out = [u8;2]; #[verifier::external_body] fn to_le_bytes_v(self) -> (r: [u8;2]) ensures r@ == le16(self) { unimplemented!() } }
impl LeBytesV for u32 { type Out = [u8;4]; #[verifier::external_body] fn to_le_bytes_v(self) -> (r: [u8;4]) ensures r@ == le32(self) { unimplemented!() } }
impl LeBytesV for u64 { type Out = [u8;8]; #[verifier::external_body] fn to_le_bytes_v(self) -> (r: [u8;8]) ensures r@ == le64(self) { unimplemented!() } }
impl BeBytesV for u32 { type Out = [u8;4]; #[verifier::external_body] fn to_be_bytes_v(self) -> (r: [u8;4]) ensures r@ == be32(self) { unimplemented!() } }
impl BeBytesV for u64 { type Out = [u8;8]; #[verifier::external_body] fn to_be_bytes_v(self) -> (r: [u8;8]) ensures r@ == be64(self) { unimplemented!() } }
#[verifier::external_body] pub fn u32_from_le_bytes_v(b: [u8;4]) -> (r: u32) ensures r == un_le32(b@) { unimplemented!() }

// ---- Vec::extend (rule R2) ----
pub trait ExtendV<I> { fn extend_v(&mut self, it: I); }
impl ExtendV<Vec<u8>> for Vec<u8> { #[verifier::external_body] fn extend_v(&mut self, it: Vec<u8>) ensures final(self)@ == old(self)@ + it@ { unimplemented!() } }
impl ExtendV<&Vec<u8>> for Vec<u8> { #[verifier::external_body] fn extend_v(&mut self, it: &Vec<u8>) ensures final(self)@ == old(self)@ + it@ { unimplemented!() } }
impl<const N: usize> ExtendV<[u8; N]> for Vec<u8> { #[verifier::external_body] fn extend_v(&mut self, it: [u8; N]) ensures final(self)@ == old(self)@ + it@ { unimplemented!() } }

// ---- byteorder::WriteBytesExt + std::io::Write on Vec<u8> (never fail) ----
pub struct LittleEndian;
pub struct BigEndian;
pub trait ByteOrder { spec fn is_le() -> bool; }
impl ByteOrder for LittleEndian { open spec fn is_le() -> bool { true } }
impl ByteOrder for BigEndian { open spec fn is_le() -> bool { false } }

pub trait WriteBytesExt {
    spec fn wview(&self) -> Seq<u8>;
    fn write_u8(&mut self, n: u8) -> (r: Result<(), IoError>) ensures r is Ok, final(self).wview() == old(self).wview() + seq![n];
    fn write_u16<T: ByteOrder>(&mut self, n: u16) -> (r: Result<(), IoError>) ensures r is Ok, T::is_le() ==> final(self).wview() == old(self).wview() + le16(n);
    fn write_u32<T: ByteOrder>(&mut self, n: u32) -> (r: Result<(), IoError>) ensures r is Ok, T::is_le() ==> final(self).wview() == old(self).wview() + le32(n), !T::is_le() ==> final(self).wview() == old(self).wview() + be32(n);
    fn write_i32<T: ByteOrder>(&mut self, n: i32) -> (r: Result<(), IoError>) ensures r is Ok, T::is_le() ==> final(self).wview() == old(self).wview() + le32(n as u32);
    fn write_u64<T: ByteOrder>(&mut self, n: u64) -> (r: Result<(), IoError>) ensures r is Ok, T::is_le() ==> final(self).wview() == old(self).wview() + le64(n);
}
impl WriteBytesExt for Vec<u8> {
    open spec fn wview(&self) -> Seq<u8> { self@ }
    #[verifier::external_body] fn write_u8(&mut self, n: u8) -> (r: Result<(), IoError>) { unimplemented!() }
    #[verifier::external_body] fn write_u16<T: ByteOrder>(&mut self, n: u16) -> (r: Result<(), IoError>) { unimplemented!() }
    #[verifier::external_body] fn write_u32<T: ByteOrder>(&mut self, n: u32) -> (r: Result<(), IoError>) { unimplemented!() }
    #[verifier::external_body] fn write_i32<T: ByteOrder>(&mut self, n: i32) -> (r: Result<(), IoError>) { unimplemented!() }
    #[verifier::external_body] fn write_u64<T: ByteOrder>(&mut self, n: u64) -> (r: Result<(), IoError>) { unimplemented!() }
}
pub trait Write {
    spec fn wv(&self) -> Seq<u8>;
    fn write_all(&mut self, b: &[u8]) -> (r: Result<(), IoError>) ensures r is Ok, final(self).wv() == old(self).wv() + b@;
    fn write(&mut self, b: &[u8]) -> (r: Result<usize, IoError>) ensures r is Ok, r->Ok_0 == b@.len(), final(self).wv() == old(self).wv() + b@;
}
impl Write for Vec<u8> {
    open spec fn wv(&self) -> Seq<u8> { self@ }
    #[verifier::external_body] fn write_all(&mut self, b: &[u8]) -> (r: Result<(), IoError>) { unimplemented!() }
    #[verifier::external_body] fn write(&mut self, b: &[u8]) -> (r: Result<usize, IoError>) { unimplemented!() }
}
// ---- <[u8; N] as TryFrom<&[u8]>> (rule R19): Ok exactly when the slice has N elements ----
pub trait TryIntoArrV<const N: usize>: Sized { spec fn tia(&self) -> Seq<u8>;
    fn try_into_v(self) -> (r: Result<[u8; N], TryFromSliceError>) ensures r is Ok <==> self.tia().len() == N, r is Ok ==> arr_view::<N>(r->Ok_0) == self.tia(); }
pub open spec fn arr_view<const N: usize>(a: [u8; N]) -> Seq<u8> { a@ }
impl<'a, const N: usize> TryIntoArrV<N> for &'a [u8] { open spec fn tia(&self) -> Seq<u8> { self@ }
    #[verifier::external_body] fn try_into_v(self) -> (r: Result<[u8; N], TryFromSliceError>) { unimplemented!() } }
// ---- <[u8]>::chunks_exact (rule R21): successive full chunks ----
pub struct ChunksV<'a> { pub data: &'a [u8], pub size: usize, pub pos: usize }
pub trait ChunksExactV { spec fn cev(&self) -> Seq<u8>; fn chunks_exact_v<'a>(&'a self, size: usize) -> (r: ChunksV<'a>) requires size > 0 ensures r.data@ == self.cev(), r.size == size, r.pos == 0; }
impl ChunksExactV for Vec<u8> { open spec fn cev(&self) -> Seq<u8> { self@ } #[verifier::external_body] fn chunks_exact_v<'a>(&'a self, size: usize) -> (r: ChunksV<'a>) { unimplemented!() } }
impl<'a> ChunksV<'a> {
    #[verifier::external_body] pub fn next(&mut self) -> (r: Option<&'a [u8]>)
        ensures final(self).data == old(self).data, final(self).size == old(self).size,
            match r { Some(c) => old(self).pos + old(self).size <= old(self).data@.len() && c@ == old(self).data@.subrange(old(self).pos as int, old(self).pos + old(self).size) && final(self).pos == old(self).pos + old(self).size,
                      None => old(self).pos + old(self).size > old(self).data@.len() && final(self).pos == old(self).pos }
    { unimplemented!() }
}
// ---- str helpers (rule R23): results are uninterpreted functions of the text ----
pub uninterp spec fn str_ends_with(s: Seq<char>, c: char) -> bool;
pub uninterp spec fn str_lower(s: Seq<char>) -> Seq<char>;
pub uninterp spec fn str_trim_end(s: Seq<char>, c: char) -> Seq<char>;
pub uninterp spec fn str_parse_u32(s: Seq<char>) -> Option<u32>;
pub trait StrV { spec fn sv(&self) -> Seq<char>;
    fn ends_with_v(&self, c: char) -> (r: bool) ensures r == str_ends_with(self.sv(), c);
    fn to_lowercase_v(&self) -> (r: String) ensures r@ == str_lower(self.sv());
    fn trim_end_matches_v(&self, c: char) -> (r: &str) ensures r@ == str_trim_end(self.sv(), c);
    fn parse_u32_v(&self) -> (r: Result<u32, ParseIntError>) ensures match r { Ok(v) => str_parse_u32(self.sv()) == Some(v), Err(_) => str_parse_u32(self.sv()) is None }; }
impl StrV for str { open spec fn sv(&self) -> Seq<char> { self@ }
    #[verifier::external_body] fn ends_with_v(&self, c: char) -> (r: bool) { unimplemented!() }
    #[verifier::external_body] fn to_lowercase_v(&self) -> (r: String) { unimplemented!() }
    #[verifier::external_body] fn trim_end_matches_v(&self, c: char) -> (r: &str) { unimplemented!() }
    #[verifier::external_body] fn parse_u32_v(&self) -> (r: Result<u32, ParseIntError>) { unimplemented!() } }
impl StrV for String { open spec fn sv(&self) -> Seq<char> { self@ }
    #[verifier::external_body] fn ends_with_v(&self, c: char) -> (r: bool) { unimplemented!() }
    #[verifier::external_body] fn to_lowercase_v(&self) -> (r: String) { unimplemented!() }
    #[verifier::external_body] fn trim_end_matches_v(&self, c: char) -> (r: &str) { unimplemented!() }
    #[verifier::external_body] fn parse_u32_v(&self) -> (r: Result<u32, ParseIntError>) { unimplemented!() } }
// ---- Vec::splice (rule R24): replaces `range` by `items`; the returned iterator, collected, yields the removed elements ----
pub struct SpliceV<T> { pub removed: Vec<T> }
impl<T> SpliceV<T> { #[verifier::external_body] pub fn collect(self) -> (r: Vec<T>) ensures r@ == self.removed@ { unimplemented!() } }
pub trait SpliceVec<T> { spec fn sp_view(&self) -> Seq<T>;
    fn splice_v(&mut self, range: core::ops::Range<usize>, items: Vec<T>) -> (r: SpliceV<T>)
        requires range.start <= range.end <= old(self).sp_view().len()
        ensures final(self).sp_view() == old(self).sp_view().subrange(0, range.start as int) + items@ + old(self).sp_view().subrange(range.end as int, old(self).sp_view().len() as int),
            r.removed@ == old(self).sp_view().subrange(range.start as int, range.end as int); }
impl<T> SpliceVec<T> for Vec<T> { open spec fn sp_view(&self) -> Seq<T> { self@ }
    #[verifier::external_body] fn splice_v(&mut self, range: core::ops::Range<usize>, items: Vec<T>) -> (r: SpliceV<T>) { unimplemented!() } }
// Rust guarantees that no allocation (hence no Vec) has more than isize::MAX elements/bytes
pub axiom fn axiom_vec_len_bound<T>(v: &Vec<T>) ensures v@.len() <= isize::MAX;
// the same guarantee, available to every arithmetic obligation without a hint (so `v.len() + 1` is never reported as a
// possible overflow): Vec and slice lengths are at most isize::MAX
pub mod lenax { use vstd::prelude::*;
    pub broadcast axiom fn axiom_vec_len_bound_b<T>(v: &Vec<T>) ensures #[trigger] v@.len() <= isize::MAX as int;
    pub broadcast axiom fn axiom_slice_len_bound_b<T>(v: &[T]) ensures #[trigger] v@.len() <= isize::MAX as int;
}
broadcast use {lenax::axiom_vec_len_bound_b, lenax::axiom_slice_len_bound_b};
