// vec![e; n] (macro M3) in units that do not decide the C09 allocation bound: no budget precondition
#[verifier::external_body]
pub fn alloc_fill_v(e: u8, n: usize) -> (r: Vec<u8>)
    ensures r@ == filled(e, n as nat)
{ unimplemented!() }
