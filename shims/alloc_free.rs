// vec![e; n] (macro M3) in units that do not decide the C09 allocation bound: the budget is astronomically large,
// so the `<= alloc_budget()` preconditions on decoder entry points are trivially true here
pub open spec fn alloc_budget() -> nat { 0xffff_ffff_ffff_ffff_ffff_ffff }
#[verifier::external_body]
pub fn alloc_fill_v(e: u8, n: usize) -> (r: Vec<u8>)
    ensures r@ == filled(e, n as nat)
{ unimplemented!() }
// Vec::with_capacity(n) (rule R25): an allocation of n elements up front
#[verifier::external_body]
pub fn vec_with_capacity_v<T>(n: usize) -> (r: Vec<T>)
    ensures r@ == Seq::<T>::empty()
{ unimplemented!() }
