// ---- std::io::Cursor + Read + byteorder::ReadBytesExt (assumed contracts; std semantics) ----
// rest() = the bytes not yet consumed.  A read of k bytes succeeds iff k <= rest().len(); on success it returns
// the little-endian value of the first k bytes and consumes them; on failure (UnexpectedEof) nothing is promised
// about the position.  Read::read copies min(buf.len(), rest().len()) bytes and ALWAYS returns Ok(n) (short reads
// are not errors) - this is what makes silently truncated pushes possible.
pub struct Cursor<T> { pub inner: T, pub pos: usize }
pub trait CurView { spec fn all(&self) -> Seq<u8>; spec fn cpos(&self) -> int;
    open spec fn rest(&self) -> Seq<u8> { if 0 <= self.cpos() <= self.all().len() { self.all().skip(self.cpos()) } else { Seq::<u8>::empty() } } }
impl<'a> CurView for Cursor<&'a [u8]> { open spec fn all(&self) -> Seq<u8> { self.inner@ } open spec fn cpos(&self) -> int { self.pos as int } }
impl CurView for Cursor<Vec<u8>> { open spec fn all(&self) -> Seq<u8> { self.inner@ } open spec fn cpos(&self) -> int { self.pos as int } }
impl<T> Cursor<T> {
    #[verifier::external_body] pub fn new(inner: T) -> (r: Self) ensures r.inner == inner, r.pos == 0 { unimplemented!() }
    #[verifier::external_body] pub fn position(&self) -> (r: u64) ensures r == self.pos { unimplemented!() }
    #[verifier::external_body] pub fn set_position(&mut self, pos: u64) ensures final(self).inner == old(self).inner, final(self).pos == pos { unimplemented!() }
}
pub open spec fn rd_ok<C: CurView>(o: &C, f: &C, k: int) -> bool {
    f.all() == o.all() && 0 <= o.cpos() && o.cpos() + k <= o.all().len() && f.cpos() == o.cpos() + k
    && o.rest().len() >= k && f.rest() == o.rest().skip(k)
}
pub open spec fn rd_err<C: CurView>(o: &C, f: &C, k: int) -> bool { f.all() == o.all() && o.rest().len() < k }
pub trait ReadBytesExt: CurView + Sized {
    fn read_u8(&mut self) -> (r: Result<u8, IoError>)
        ensures match r { Ok(b) => rd_ok(old(self), final(self), 1) && b == old(self).rest()[0], Err(_) => rd_err(old(self), final(self), 1) };
    fn read_u16<T: ByteOrder>(&mut self) -> (r: Result<u16, IoError>)
        ensures match r { Ok(b) => rd_ok(old(self), final(self), 2) && (T::is_le() ==> b == un_le16(old(self).rest().take(2))), Err(_) => rd_err(old(self), final(self), 2) };
    fn read_u32<T: ByteOrder>(&mut self) -> (r: Result<u32, IoError>)
        ensures match r { Ok(b) => rd_ok(old(self), final(self), 4) && (T::is_le() ==> b == un_le32(old(self).rest().take(4))) && (!T::is_le() ==> b == un_be32(old(self).rest().take(4))), Err(_) => rd_err(old(self), final(self), 4) };
    fn read_u64<T: ByteOrder>(&mut self) -> (r: Result<u64, IoError>)
        ensures match r { Ok(b) => rd_ok(old(self), final(self), 8) && (T::is_le() ==> b == un_le64(old(self).rest().take(8))), Err(_) => rd_err(old(self), final(self), 8) };
}
pub trait Read: CurView + Sized {
    fn read(&mut self, buf: &mut Vec<u8>) -> (r: Result<usize, IoError>)
        ensures r is Ok,
            ({ let n = if old(self).rest().len() < old(buf)@.len() { old(self).rest().len() } else { old(buf)@.len() };
               r->Ok_0 == n && final(buf)@ == old(self).rest().take(n as int) + old(buf)@.skip(n as int)
               && final(self).all() == old(self).all() && final(self).rest() == old(self).rest().skip(n as int)
               && (n > 0 ==> final(self).cpos() == old(self).cpos() + n) && (n == 0 ==> final(self).cpos() == old(self).cpos()) });
    fn read_exact(&mut self, buf: &mut Vec<u8>) -> (r: Result<(), IoError>)
        ensures final(buf)@.len() == old(buf)@.len(),
            match r { Ok(_) => rd_ok(old(self), final(self), old(buf)@.len() as int) && final(buf)@ == old(self).rest().take(old(buf)@.len() as int),
                      Err(_) => rd_err(old(self), final(self), old(buf)@.len() as int) };
}
impl<'a> ReadBytesExt for Cursor<&'a [u8]> {
    #[verifier::external_body] fn read_u8(&mut self) -> (r: Result<u8, IoError>) { unimplemented!() }
    #[verifier::external_body] fn read_u16<T: ByteOrder>(&mut self) -> (r: Result<u16, IoError>) { unimplemented!() }
    #[verifier::external_body] fn read_u32<T: ByteOrder>(&mut self) -> (r: Result<u32, IoError>) { unimplemented!() }
    #[verifier::external_body] fn read_u64<T: ByteOrder>(&mut self) -> (r: Result<u64, IoError>) { unimplemented!() }
}
impl ReadBytesExt for Cursor<Vec<u8>> {
    #[verifier::external_body] fn read_u8(&mut self) -> (r: Result<u8, IoError>) { unimplemented!() }
    #[verifier::external_body] fn read_u16<T: ByteOrder>(&mut self) -> (r: Result<u16, IoError>) { unimplemented!() }
    #[verifier::external_body] fn read_u32<T: ByteOrder>(&mut self) -> (r: Result<u32, IoError>) { unimplemented!() }
    #[verifier::external_body] fn read_u64<T: ByteOrder>(&mut self) -> (r: Result<u64, IoError>) { unimplemented!() }
}
impl<'a> Read for Cursor<&'a [u8]> {
    #[verifier::external_body] fn read(&mut self, buf: &mut Vec<u8>) -> (r: Result<usize, IoError>) { unimplemented!() }
    #[verifier::external_body] fn read_exact(&mut self, buf: &mut Vec<u8>) -> (r: Result<(), IoError>) { unimplemented!() }
}
impl Read for Cursor<Vec<u8>> {
    #[verifier::external_body] fn read(&mut self, buf: &mut Vec<u8>) -> (r: Result<usize, IoError>) { unimplemented!() }
    #[verifier::external_body] fn read_exact(&mut self, buf: &mut Vec<u8>) -> (r: Result<(), IoError>) { unimplemented!() }
}
impl Cursor<Vec<u8>> {
    #[verifier::external_body] pub fn get_ref(&self) -> (r: &Vec<u8>) ensures r@ == self.inner@ { unimplemented!() }
}
// ---- std::slice::Iter as a position over a sequence (rule R9: .iter() -> .iter_v() in the re-nesting functions) ----
pub struct Iter<'a, T> { pub seq: &'a [T], pub pos: usize }
impl<'a, T> Iter<'a, T> {
    #[verifier::external_body]
    pub fn next(&mut self) -> (r: Option<&'a T>)
        requires old(self).pos <= old(self).seq@.len()
        ensures final(self).seq == old(self).seq,
            match r { Some(x) => old(self).pos < old(self).seq@.len() && *x == old(self).seq@[old(self).pos as int] && final(self).pos == old(self).pos + 1,
                      None => old(self).pos == old(self).seq@.len() && final(self).pos == old(self).pos }
    { unimplemented!() }
}
pub trait IterV<T> { fn iter_v<'a>(&'a self) -> Iter<'a, T>; }
impl<T> IterV<T> for Vec<T> {
    #[verifier::external_body] fn iter_v<'a>(&'a self) -> (r: Iter<'a, T>) ensures r.seq@ == self@, r.pos == 0 { unimplemented!() }
}
