// ---- shadowed macros (DESIGN 2.2 M1-M3): the invoking source text is untouched ----
#[allow(unused_macros)]
macro_rules! format { ($fmt:expr $(, $arg:expr)* $(,)?) => { { $(let _ = &$arg;)* fmt_opaque_v() } }; }
#[allow(unused_macros)]
macro_rules! println { ($($t:tt)*) => { () }; }
#[allow(unused_macros)]
macro_rules! vec {
    () => { Vec::new() };
    ($e:expr; $n:expr) => { alloc_fill_v($e, $n) };
    ($($x:expr),+ $(,)?) => { std::vec![$($x),+] };
}
