// std::convert::AsRef<[u8]> (shadowed): the bytes a value exposes
pub trait AsRef<T: ?Sized> { spec fn bytes_v(&self) -> Seq<u8>; fn as_ref(&self) -> (r: &[u8]) ensures r@ == self.bytes_v(); }
impl AsRef<[u8]> for &[u8] { open spec fn bytes_v(&self) -> Seq<u8> { self@ } #[verifier::external_body] fn as_ref(&self) -> (r: &[u8]) { unimplemented!() } }
impl AsRef<[u8]> for &mut [u8] { open spec fn bytes_v(&self) -> Seq<u8> { self@ } #[verifier::external_body] fn as_ref(&self) -> (r: &[u8]) { unimplemented!() } }
impl AsRef<[u8]> for &Vec<u8> { open spec fn bytes_v(&self) -> Seq<u8> { self@ } #[verifier::external_body] fn as_ref(&self) -> (r: &[u8]) { unimplemented!() } }
impl AsRef<[u8]> for Vec<u8> { open spec fn bytes_v(&self) -> Seq<u8> { self@ } #[verifier::external_body] fn as_ref(&self) -> (r: &[u8]) { unimplemented!() } }
impl<const N: usize> AsRef<[u8]> for [u8; N] { open spec fn bytes_v(&self) -> Seq<u8> { self@ } #[verifier::external_body] fn as_ref(&self) -> (r: &[u8]) { unimplemented!() } }
impl<const N: usize> AsRef<[u8]> for &[u8; N] { open spec fn bytes_v(&self) -> Seq<u8> { self@ } #[verifier::external_body] fn as_ref(&self) -> (r: &[u8]) { unimplemented!() } }
