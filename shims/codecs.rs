// ================= hex / bs58 codecs (ASSUMED): uninterpreted encode/decode with decode(encode(b)) == Some(b) =================
pub uninterp spec fn hex_enc(b: Seq<u8>) -> Seq<char>;
pub uninterp spec fn hex_dec(s: Seq<char>) -> Option<Seq<u8>>;
pub uninterp spec fn b58_enc(b: Seq<u8>) -> Seq<char>;
pub uninterp spec fn b58_dec(s: Seq<char>) -> Option<Seq<u8>>;
pub axiom fn axiom_b58_roundtrip(b: Seq<u8>) ensures b58_dec(b58_enc(b)) == Some(b);
pub axiom fn axiom_hex_roundtrip(b: Seq<u8>) ensures hex_dec(hex_enc(b)) == Some(b);
pub mod hex {
    use super::*;
    #[verifier::external_body] pub fn encode<T: AsRef<[u8]>>(data: T) -> (r: String) ensures r@ == hex_enc(data.bytes_v()) { unimplemented!() }
    #[verifier::external_body] pub fn decode(s: &str) -> (r: Result<Vec<u8>, FromHexError>)
        ensures match r { Ok(v) => hex_dec(s@) == Some(v@) && v@.len() <= s@.len(), Err(_) => hex_dec(s@) is None } { unimplemented!() }
}
pub mod bs58 {
    use super::*;
    pub struct EncodeBuilder { pub b: Ghost<Seq<u8>> }
    pub struct DecodeBuilder { pub s: Ghost<Seq<char>> }
    #[verifier::external_body] pub fn encode<T: AsRef<[u8]>>(data: T) -> (r: EncodeBuilder) ensures r.b@ == data.bytes_v() { unimplemented!() }
    #[verifier::external_body] pub fn decode(s: &str) -> (r: DecodeBuilder) ensures r.s@ == s@ { unimplemented!() }
    impl EncodeBuilder { #[verifier::external_body] pub fn into_string(self) -> (r: String) ensures r@ == b58_enc(self.b@) { unimplemented!() } }
    impl DecodeBuilder { #[verifier::external_body] pub fn into_vec(self) -> (r: Result<Vec<u8>, Bs58DecodeError>)
        ensures match r { Ok(v) => b58_dec(self.s@) == Some(v@), Err(_) => b58_dec(self.s@) is None } { unimplemented!() } }
}
