// ---- text parsing used by the template grammar (ASSUMED, uninterpreted): the CONTENT of strings is opaque to Verus, so
// these functions only name the std operations; the grammar contract is stated over them ----
pub uninterp spec fn str_parse_u8(s: Seq<char>) -> Option<u8>;           // <u8 as FromStr>::from_str
pub uninterp spec fn str_parse_usize(s: Seq<char>) -> Option<usize>;     // <usize as FromStr>::from_str
pub uninterp spec fn opcode_of_name(s: Seq<char>) -> Option<OpCodes>;    // strum EnumString on OpCodes
pub uninterp spec fn op_name(c: OpCodes) -> Seq<char>;                   // strum Display on OpCodes
pub uninterp spec fn str_byte_len(s: Seq<char>) -> int;                       // str::len (UTF-8 byte length)
pub uninterp spec fn str_starts_with(s: Seq<char>, p: Seq<char>) -> bool;
pub uninterp spec fn str_split_once(s: Seq<char>, p: Seq<char>) -> Option<(Seq<char>, Seq<char>)>;   // at the first occurrence of p
#[verifier::external_body] pub fn u8_from_str_v(s: &str) -> (r: Result<u8, ParseIntError>) ensures match r { Ok(v) => str_parse_u8(s@) == Some(v), Err(_) => str_parse_u8(s@) is None } { unimplemented!() }
#[verifier::external_body] pub fn usize_from_str_v(s: &str) -> (r: Result<usize, ParseIntError>) ensures match r { Ok(v) => str_parse_usize(s@) == Some(v), Err(_) => str_parse_usize(s@) is None } { unimplemented!() }
pub struct StrumParseError;
impl OpCodes {
    #[verifier::external_body] pub fn from_str(s: &str) -> (r: Result<OpCodes, StrumParseError>) ensures match r { Ok(c) => opcode_of_name(s@) == Some(c), Err(_) => opcode_of_name(s@) is None } { unimplemented!() }
    #[verifier::external_body] pub fn to_string(&self) -> (r: String) ensures r@ == op_name(*self) { unimplemented!() }
}
pub trait PatV { spec fn pat_view(&self) -> Seq<char>; }
impl PatV for &str { open spec fn pat_view(&self) -> Seq<char> { self@ } }
impl PatV for char { open spec fn pat_view(&self) -> Seq<char> { seq![*self] } }
impl PatV for &String { open spec fn pat_view(&self) -> Seq<char> { self@ } }
pub trait StrParseV { spec fn spv(&self) -> Seq<char>;
    fn byte_len_v(&self) -> (r: usize) ensures r == str_byte_len(self.spv());
    fn starts_with_v<P: PatV>(&self, p: P) -> (r: bool) ensures r == str_starts_with(self.spv(), p.pat_view());
    fn split_once_v<P: PatV>(&self, p: P) -> (r: Option<(&str, &str)>) ensures match r { Some((a, b)) => str_split_once(self.spv(), p.pat_view()) == Some((a@, b@)), None => str_split_once(self.spv(), p.pat_view()) is None }; }
impl StrParseV for str { open spec fn spv(&self) -> Seq<char> { self@ }
    #[verifier::external_body] fn byte_len_v(&self) -> (r: usize) { unimplemented!() }
    #[verifier::external_body] fn starts_with_v<P: PatV>(&self, p: P) -> (r: bool) { unimplemented!() }
    #[verifier::external_body] fn split_once_v<P: PatV>(&self, p: P) -> (r: Option<(&str, &str)>) { unimplemented!() } }
