// ================= shim of num_bigint::BigInt (ASSUMED): a mathematical integer =================
// Byte conversions are specified through two uninterpreted-but-axiomatised functions:
//   le_val(bytes)  : the unsigned little-endian value of a byte string
//   mag_le(n)      : the MINIMAL little-endian byte string of n > 0 (no trailing zero byte); mag_le(0) == [0] (num-bigint's to_bytes_le of zero)
pub struct BigInt { pub v: Ghost<int> }
impl View for BigInt { type V = int; open spec fn view(&self) -> int { self.v@ } }
impl Clone for BigInt { #[verifier::external_body] fn clone(&self) -> (r: Self) ensures r@ == self@ { unimplemented!() } }
#[derive(Clone, Copy)]
pub enum Sign { Minus, NoSign, Plus }
impl PartialEqSpecImpl<Sign> for Sign { open spec fn obeys_eq_spec() -> bool { true } open spec fn eq_spec(&self, o: &Sign) -> bool { *self == *o } }
impl PartialEq for Sign { #[verifier::external_body] fn eq(&self, o: &Sign) -> (r: bool) { unimplemented!() } }
pub open spec fn le_val(b: Seq<u8>) -> nat decreases b.len() { if b.len() == 0 { 0 } else { (b[0] as nat) + 256 * le_val(b.skip(1)) } }
pub uninterp spec fn mag_le(n: nat) -> Seq<u8>;
pub axiom fn axiom_mag_le(n: nat) ensures mag_le(n).len() >= 1, le_val(mag_le(n)) == n, n > 0 ==> mag_le(n).last() != 0u8, n == 0 ==> mag_le(n) == seq![0u8];
pub axiom fn axiom_mag_le_unique(b: Seq<u8>) ensures b.len() >= 1 && b.last() != 0u8 ==> mag_le(le_val(b)) == b;
pub uninterp spec fn twos_val(b: Seq<u8>) -> int;      // two's complement little-endian value (0 for the empty string)
pub uninterp spec fn twos_le(v: int) -> Seq<u8>;       // minimal two's complement little-endian encoding
impl BigInt {
    #[verifier::external_body] pub fn from_bytes_le(sign: Sign, bytes: &[u8]) -> (r: BigInt)
        ensures r@ == (if sign is Minus { -(le_val(bytes@) as int) } else if sign is Plus { le_val(bytes@) as int } else { 0 }) { unimplemented!() }
    #[verifier::external_body] pub fn to_bytes_le(&self) -> (r: (Sign, Vec<u8>))
        ensures r.1@ == mag_le((if self@ < 0 { -self@ } else { self@ }) as nat), self@ < 0 ==> r.0 is Minus, self@ == 0 ==> r.0 is NoSign, self@ > 0 ==> r.0 is Plus { unimplemented!() }
    #[verifier::external_body] pub fn from_signed_bytes_le(bytes: &[u8]) -> (r: BigInt) ensures r@ == twos_val(bytes@) { unimplemented!() }
    #[verifier::external_body] pub fn to_signed_bytes_le(&self) -> (r: Vec<u8>) ensures r@ == twos_le(self@) { unimplemented!() }
    #[verifier::external_body] pub fn from_slice(sign: Sign, digits: &[u32]) -> (r: BigInt)
        ensures digits@.len() == 1 ==> r@ == (if sign is Minus { -(digits@[0] as int) } else if sign is Plus { digits@[0] as int } else { 0 }) { unimplemented!() }
}
impl From<usize> for BigInt { #[verifier::external_body] fn from(x: usize) -> (r: BigInt) ensures r@ == x { unimplemented!() } }
impl From<i32> for BigInt { #[verifier::external_body] fn from(x: i32) -> (r: BigInt) ensures r@ == x { unimplemented!() } }
impl AddSpecImpl<BigInt> for BigInt { open spec fn obeys_add_spec() -> bool { true } open spec fn add_req(self, rhs: BigInt) -> bool { true }
    open spec fn add_spec(self, rhs: BigInt) -> BigInt { BigInt { v: Ghost(self.v@ + rhs.v@) } } }
impl core::ops::Add<BigInt> for BigInt { type Output = BigInt; #[verifier::external_body] fn add(self, rhs: BigInt) -> (r: BigInt) { unimplemented!() } }
impl AddSpecImpl<i32> for BigInt { open spec fn obeys_add_spec() -> bool { true } open spec fn add_req(self, rhs: i32) -> bool { true }
    open spec fn add_spec(self, rhs: i32) -> BigInt { BigInt { v: Ghost(self.v@ + (rhs as int)) } } }
impl core::ops::Add<i32> for BigInt { type Output = BigInt; #[verifier::external_body] fn add(self, rhs: i32) -> (r: BigInt) { unimplemented!() } }
impl SubSpecImpl<BigInt> for BigInt { open spec fn obeys_sub_spec() -> bool { true } open spec fn sub_req(self, rhs: BigInt) -> bool { true }
    open spec fn sub_spec(self, rhs: BigInt) -> BigInt { BigInt { v: Ghost(self.v@ - rhs.v@) } } }
impl core::ops::Sub<BigInt> for BigInt { type Output = BigInt; #[verifier::external_body] fn sub(self, rhs: BigInt) -> (r: BigInt) { unimplemented!() } }
impl SubSpecImpl<i32> for BigInt { open spec fn obeys_sub_spec() -> bool { true } open spec fn sub_req(self, rhs: i32) -> bool { true }
    open spec fn sub_spec(self, rhs: i32) -> BigInt { BigInt { v: Ghost(self.v@ - (rhs as int)) } } }
impl core::ops::Sub<i32> for BigInt { type Output = BigInt; #[verifier::external_body] fn sub(self, rhs: i32) -> (r: BigInt) { unimplemented!() } }
impl MulSpecImpl<BigInt> for BigInt { open spec fn obeys_mul_spec() -> bool { true } open spec fn mul_req(self, rhs: BigInt) -> bool { true }
    open spec fn mul_spec(self, rhs: BigInt) -> BigInt { BigInt { v: Ghost(self.v@ * rhs.v@) } } }
impl core::ops::Mul<BigInt> for BigInt { type Output = BigInt; #[verifier::external_body] fn mul(self, rhs: BigInt) -> (r: BigInt) { unimplemented!() } }
impl MulSpecImpl<i32> for BigInt { open spec fn obeys_mul_spec() -> bool { true } open spec fn mul_req(self, rhs: i32) -> bool { true }
    open spec fn mul_spec(self, rhs: i32) -> BigInt { BigInt { v: Ghost(self.v@ * (rhs as int)) } } }
impl core::ops::Mul<i32> for BigInt { type Output = BigInt; #[verifier::external_body] fn mul(self, rhs: i32) -> (r: BigInt) { unimplemented!() } }
pub open spec fn tdiv(a: int, b: int) -> int { if b == 0 { 0 } else if (a >= 0) == (b > 0) { (if a >= 0 { a } else { -a }) / (if b > 0 { b } else { -b }) } else { -((if a >= 0 { a } else { -a }) / (if b > 0 { b } else { -b })) } }
pub open spec fn trem(a: int, b: int) -> int { a - b * tdiv(a, b) }
impl DivSpecImpl<BigInt> for BigInt { open spec fn obeys_div_spec() -> bool { true } open spec fn div_req(self, rhs: BigInt) -> bool { rhs.v@ != 0 }
    open spec fn div_spec(self, rhs: BigInt) -> BigInt { BigInt { v: Ghost(tdiv(self.v@, rhs.v@)) } } }
impl core::ops::Div<BigInt> for BigInt { type Output = BigInt; #[verifier::external_body] fn div(self, rhs: BigInt) -> (r: BigInt) { unimplemented!() } }
impl RemSpecImpl<BigInt> for BigInt { open spec fn obeys_rem_spec() -> bool { true } open spec fn rem_req(self, rhs: BigInt) -> bool { rhs.v@ != 0 }
    open spec fn rem_spec(self, rhs: BigInt) -> BigInt { BigInt { v: Ghost(trem(self.v@, rhs.v@)) } } }
impl core::ops::Rem<BigInt> for BigInt { type Output = BigInt; #[verifier::external_body] fn rem(self, rhs: BigInt) -> (r: BigInt) { unimplemented!() } }
impl DivSpecImpl<i32> for BigInt { open spec fn obeys_div_spec() -> bool { true } open spec fn div_req(self, rhs: i32) -> bool { (rhs as int) != 0 }
    open spec fn div_spec(self, rhs: i32) -> BigInt { BigInt { v: Ghost(tdiv(self.v@, (rhs as int))) } } }
impl core::ops::Div<i32> for BigInt { type Output = BigInt; #[verifier::external_body] fn div(self, rhs: i32) -> (r: BigInt) { unimplemented!() } }
impl RemSpecImpl<i32> for BigInt { open spec fn obeys_rem_spec() -> bool { true } open spec fn rem_req(self, rhs: i32) -> bool { (rhs as int) != 0 }
    open spec fn rem_spec(self, rhs: i32) -> BigInt { BigInt { v: Ghost(trem(self.v@, (rhs as int))) } } }
impl core::ops::Rem<i32> for BigInt { type Output = BigInt; #[verifier::external_body] fn rem(self, rhs: i32) -> (r: BigInt) { unimplemented!() } }
impl NegSpecImpl for BigInt { open spec fn obeys_neg_spec() -> bool { true } open spec fn neg_req(self) -> bool { true } open spec fn neg_spec(self) -> BigInt { BigInt { v: Ghost(-self.v@) } } }
impl core::ops::Neg for BigInt { type Output = BigInt; #[verifier::external_body] fn neg(self) -> (r: BigInt) { unimplemented!() } }
// shifts by i32: num-bigint panics on a negative shift count; >> rounds toward minus infinity
impl ShlSpecImpl<i32> for BigInt { open spec fn obeys_shl_spec() -> bool { true } open spec fn shl_req(self, rhs: i32) -> bool { rhs >= 0 }
    open spec fn shl_spec(self, rhs: i32) -> BigInt { BigInt { v: Ghost(self.v@ * (vstd::arithmetic::power2::pow2(rhs as nat) as int)) } } }
impl core::ops::Shl<i32> for BigInt { type Output = BigInt; #[verifier::external_body] fn shl(self, rhs: i32) -> (r: BigInt) { unimplemented!() } }
impl ShrSpecImpl<i32> for BigInt { open spec fn obeys_shr_spec() -> bool { true } open spec fn shr_req(self, rhs: i32) -> bool { rhs >= 0 }
    open spec fn shr_spec(self, rhs: i32) -> BigInt { BigInt { v: Ghost(self.v@ / (vstd::arithmetic::power2::pow2(rhs as nat) as int)) } } }
impl core::ops::Shr<i32> for BigInt { type Output = BigInt; #[verifier::external_body] fn shr(self, rhs: i32) -> (r: BigInt) { unimplemented!() } }
impl PartialEqSpecImpl<BigInt> for BigInt { open spec fn obeys_eq_spec() -> bool { true } open spec fn eq_spec(&self, o: &BigInt) -> bool { self.v@ == o.v@ } }
impl PartialEq for BigInt { #[verifier::external_body] fn eq(&self, o: &BigInt) -> (r: bool) { unimplemented!() } }
impl PartialOrdSpecImpl<BigInt> for BigInt { open spec fn obeys_partial_cmp_spec() -> bool { true }
    open spec fn partial_cmp_spec(&self, o: &BigInt) -> Option<core::cmp::Ordering> { if self.v@ < o.v@ { Some(core::cmp::Ordering::Less) } else if self.v@ == o.v@ { Some(core::cmp::Ordering::Equal) } else { Some(core::cmp::Ordering::Greater) } } }
impl PartialOrd for BigInt { #[verifier::external_body] fn partial_cmp(&self, o: &BigInt) -> (r: Option<core::cmp::Ordering>) { unimplemented!() } }
