// ---- std::io::Cursor<Vec<u8>> used as a read/write buffer (ASSUMED: std semantics for positions inside or at the end of the buffer:
// a write overwrites from the position and extends the Vec as needed; read_to_end appends the rest and moves to the end) ----
pub open spec fn cur_written(all: Seq<u8>, pos: int, data: Seq<u8>) -> Seq<u8> {
    if pos + data.len() >= all.len() { all.take(pos) + data } else { all.take(pos) + data + all.skip(pos + data.len()) }
}
pub open spec fn cur_wr(o: &Cursor<Vec<u8>>, f: &Cursor<Vec<u8>>, data: Seq<u8>) -> bool {
    o.pos <= o.inner@.len() ==> f.inner@ == cur_written(o.inner@, o.pos as int, data) && f.pos == o.pos + data.len()
}
impl WriteBytesExt for Cursor<Vec<u8>> {
    open spec fn wview(&self) -> Seq<u8> { if self.pos <= self.inner@.len() { self.inner@.take(self.pos as int) } else { self.inner@ } }
    #[verifier::external_body] fn write_u8(&mut self, n: u8) -> (r: Result<(), IoError>) ensures cur_wr(old(self), final(self), seq![n]) { unimplemented!() }
    #[verifier::external_body] fn write_u16<T: ByteOrder>(&mut self, n: u16) -> (r: Result<(), IoError>) { unimplemented!() }
    #[verifier::external_body] fn write_u32<T: ByteOrder>(&mut self, n: u32) -> (r: Result<(), IoError>) ensures !T::is_le() ==> cur_wr(old(self), final(self), be32(n)), T::is_le() ==> cur_wr(old(self), final(self), le32(n)) { unimplemented!() }
    #[verifier::external_body] fn write_i32<T: ByteOrder>(&mut self, n: i32) -> (r: Result<(), IoError>) { unimplemented!() }
    #[verifier::external_body] fn write_u64<T: ByteOrder>(&mut self, n: u64) -> (r: Result<(), IoError>) { unimplemented!() }
}
impl Write for Cursor<Vec<u8>> {
    open spec fn wv(&self) -> Seq<u8> { if self.pos <= self.inner@.len() { self.inner@.take(self.pos as int) } else { self.inner@ } }
    #[verifier::external_body] fn write_all(&mut self, b: &[u8]) -> (r: Result<(), IoError>) ensures cur_wr(old(self), final(self), b@) { unimplemented!() }
    #[verifier::external_body] fn write(&mut self, b: &[u8]) -> (r: Result<usize, IoError>) ensures cur_wr(old(self), final(self), b@) { unimplemented!() }
}
impl Cursor<Vec<u8>> {
    #[verifier::external_body] pub fn read_to_end(&mut self, buf: &mut Vec<u8>) -> (r: Result<usize, IoError>)
        ensures r is Ok, final(self).inner == old(self).inner, final(buf)@ == old(buf)@ + old(self).rest(), r->Ok_0 == old(self).rest().len(),
            old(self).pos <= old(self).inner@.len() ==> final(self).pos == old(self).inner@.len()
    { unimplemented!() }
}
