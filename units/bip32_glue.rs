// unit bip32_glue (C08): master key, child derivation (private and public), xprv/xpub strings
use vstd::prelude::*;
use vstd::std_specs::convert::*;
//@include shims/macros.rs
verus! {
//@include shims/core.rs
//@include shims/alloc_free.rs
//@include shims/cursor.rs
//@include shims/cursor_write.rs
//@include spec/hash.rs
//@enum BSVErrors @ src/errors/mod.rs
//@enum SigningHash @ src/ecdsa/mod.rs clone copy partialeq eq
//@include shims/asref.rs
//@include shims/digest.rs
//@include shims/codecs.rs
//@include shims/k256.rs
//@include shims/strpath.rs
//@include spec/bip32.rs
//@const HARDENED_KEY_OFFSET @ src/keypair/mod.rs
//@const XPRIV_VERSION_BYTE @ src/keypair/mod.rs
//@const XPUB_VERSION_BYTE @ src/keypair/mod.rs
//@struct Hash @ src/hash/mod.rs clone
impl Hash {
//@stub Hash::to_bytes
//@stub Hash::sha_256d
//@stub Hash::hash_160
//@stub Hash::sha_512_hmac
}
//@struct PrivateKey @ src/keypair/private_key.rs clone
//@struct PublicKey @ src/keypair/public_key.rs clone
impl PublicKey {
//@stub PublicKey::from_bytes_impl
//@stub PublicKey::to_bytes_impl
//@stub PublicKey::from_private_key_impl
}
impl PrivateKey {
//@stub PrivateKey::from_bytes_impl
//@stub PrivateKey::to_bytes
}
//@struct ExtendedPrivateKey @ src/keypair/extended_private_key.rs
//@struct ExtendedPublicKey @ src/keypair/extended_public_key.rs
impl ExtendedPrivateKey {
//@fn ExtendedPrivateKey::from_seed_impl
//@wrapper ExtendedPrivateKey::from_seed @ src/keypair/extended_private_key.rs = ExtendedPrivateKey::from_seed_impl
//@fn ExtendedPrivateKey::derive_impl
//@wrapper ExtendedPrivateKey::derive @ src/keypair/extended_private_key.rs = ExtendedPrivateKey::derive_impl
//@fn ExtendedPrivateKey::to_string_impl
//@wrapper ExtendedPrivateKey::to_string @ src/keypair/extended_private_key.rs = ExtendedPrivateKey::to_string_impl
//@fn ExtendedPrivateKey::from_string_impl
//@wrapper ExtendedPrivateKey::from_string @ src/keypair/extended_private_key.rs = ExtendedPrivateKey::from_string_impl
//@fn ExtendedPrivateKey::parse_str_to_idx
//@fn ExtendedPrivateKey::derive_from_path_impl
//@wrapper ExtendedPrivateKey::derive_from_path @ src/keypair/extended_private_key.rs = ExtendedPrivateKey::derive_from_path_impl
//@fn ExtendedPrivateKey::get_private_key
//@fn ExtendedPrivateKey::get_public_key
//@fn ExtendedPrivateKey::get_chain_code
//@fn ExtendedPrivateKey::get_depth
//@fn ExtendedPrivateKey::get_index
//@fn ExtendedPrivateKey::get_parent_fingerprint
}
impl ExtendedPublicKey {
//@fn ExtendedPublicKey::from_xpriv
//@fn ExtendedPublicKey::derive_impl
//@wrapper ExtendedPublicKey::derive @ src/keypair/extended_public_key.rs = ExtendedPublicKey::derive_impl
//@fn ExtendedPublicKey::to_string_impl
//@wrapper ExtendedPublicKey::to_string @ src/keypair/extended_public_key.rs = ExtendedPublicKey::to_string_impl
//@fn ExtendedPublicKey::from_string_impl
//@wrapper ExtendedPublicKey::from_string @ src/keypair/extended_public_key.rs = ExtendedPublicKey::from_string_impl
//@fn ExtendedPublicKey::parse_str_to_idx
//@fn ExtendedPublicKey::derive_from_path_impl
//@wrapper ExtendedPublicKey::derive_from_path @ src/keypair/extended_public_key.rs = ExtendedPublicKey::derive_from_path_impl
}
// ---- property-level lemma: public derivation of the neutered parent == neutering the privately derived child (normal index) ----
pub proof fn lemma_ckd_pub_commutes_with_neuter(k: Seq<u8>, chain: Seq<u8>, index: u32)
    requires valid_secret(k), !bip32_hardened(index),
        valid_secret(sc_add(k, ckd_i(chain, ckd_priv_data(k, index)).subrange(0, 32)))
    ensures ({ let serp = sec1_form(pub_of(k), true);
        // both derivations key the same HMAC over the same data ...
        ckd_priv_data(k, index) == serp + be32(index)
        // ... and Kpar + IL*G == (kpar + IL)*G
        && pt_add(sec1_point(serp), pub_of(ckd_i(chain, serp + be32(index)).subrange(0, 32))) == Some(pub_of(sc_add(k, ckd_i(chain, serp + be32(index)).subrange(0, 32)))) })
{
    axiom_pub_valid(k, true); axiom_sec1_forms(pub_of(k), true);
    axiom_bip32_distributes(k, ckd_i(chain, sec1_form(pub_of(k), true) + be32(index)).subrange(0, 32));
}
} // verus!
fn main() {}
