// unit ecies_glue (C11, C09): BIE1 construction, MAC-then-decrypt, ciphertext container
use vstd::prelude::*;
use vstd::std_specs::convert::*;
//@include shims/macros.rs
verus! {
//@include shims/core.rs
//@include shims/alloc_free.rs
//@include spec/hash.rs
//@enum BSVErrors @ src/errors/mod.rs
//@enum SigningHash @ src/ecdsa/mod.rs clone copy partialeq eq
//@include shims/asref.rs
//@include shims/digest.rs
//@include shims/aes.rs
//@include shims/codecs.rs
//@include shims/k256.rs
//@enum AESAlgorithms @ src/encryption/mod.rs clone copy
pub struct AES;
impl AES {
//@stub AES::encrypt_impl
//@stub AES::decrypt_impl
}
//@struct Hash @ src/hash/mod.rs clone
impl Hash {
//@stub Hash::to_bytes
//@stub Hash::sha_512
//@stub Hash::sha_256_hmac
}
//@struct PrivateKey @ src/keypair/private_key.rs clone
//@struct PublicKey @ src/keypair/public_key.rs clone
impl PublicKey {
//@stub PublicKey::from_bytes_impl
//@stub PublicKey::to_bytes_impl
//@stub PublicKey::to_compressed_impl
//@stubrest PublicKey
}
impl PrivateKey {
//@stub PrivateKey::to_public_key_impl
//@stubrest PrivateKey
}
//@struct CipherKeys @ src/ecies/mod.rs clone
//@struct ECIESCiphertext @ src/ecies/ecies_ciphertext.rs
//@const PUB_KEY_OFFSET @ src/ecies/ecies_ciphertext.rs
//@const PUB_KEY_END @ src/ecies/ecies_ciphertext.rs
pub struct ECIES {}
impl ECIES {
//@fn ECIES::derive_cipher_keys_impl
//@fn ECIES::encrypt_impl
//@fn ECIES::decrypt_impl
//@wrapper ECIES::decrypt @ src/ecies/mod.rs = ECIES::decrypt_impl
}
impl ECIESCiphertext {
//@fn ECIESCiphertext::to_bytes
//@fn ECIESCiphertext::from_bytes_impl
//@wrapper ECIESCiphertext::from_bytes @ src/ecies/ecies_ciphertext.rs = ECIESCiphertext::from_bytes_impl
}
// ---- property-level lemmas over the contracts above ----
// both parties derive the same keys, and decryption inverts encryption (from the ECDH and AES-CBC axioms)
pub proof fn lemma_ecies_roundtrip(a: Seq<u8>, b: Seq<u8>, m: Seq<u8>)
    requires valid_secret(a), valid_secret(b)
    ensures ({ let hs = spec_sha512(sec1_form(pt_mul(pub_of(b), a), true)); let hr = spec_sha512(sec1_form(pt_mul(pub_of(a), b), true));
        hs == hr && spec_cbc_dec::<Aes128>(hr.subrange(16, 32), hr.subrange(0, 16), spec_cbc_enc::<Aes128>(hs.subrange(16, 32), hs.subrange(0, 16), m)) == Some(m) })
{
    axiom_ecdh_commutes(a, b);
    let hs = spec_sha512(sec1_form(pt_mul(pub_of(b), a), true));
    axiom_cbc_dec_enc::<Aes128>(hs.subrange(16, 32), hs.subrange(0, 16), m);
}
// the container parser inverts the container serialiser (both inclusion modes)
pub proof fn lemma_container_roundtrip(pk: Option<Seq<u8>>, ct: Seq<u8>, mac: Seq<u8>)
    requires mac.len() == 32, pk is Some ==> pk->Some_0.len() == 33
    ensures ({ let b = seq![0x42u8, 0x49u8, 0x45u8, 0x31u8] + (match pk { Some(p) => p, None => Seq::<u8>::empty() }) + ct + mac; let n = b.len() as int;
        b.subrange(n - 32, n) == mac && (pk is Some ==> b.subrange(4, 37) == pk->Some_0 && b.subrange(37, n - 32) == ct) && (pk is None ==> b.subrange(4, n - 32) == ct) })
{
    let b = seq![0x42u8, 0x49u8, 0x45u8, 0x31u8] + (match pk { Some(p) => p, None => Seq::<u8>::empty() }) + ct + mac; let n = b.len() as int;
    assert(b.subrange(n - 32, n) =~= mac);
    if pk is Some { assert(b.subrange(4, 37) =~= pk->Some_0); assert(b.subrange(37, n - 32) =~= ct); } else { assert(b.subrange(4, n - 32) =~= ct); }
}
} // verus!
fn main() {}
