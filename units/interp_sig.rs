// unit interp_sig (C15): CHECKSIG wiring (preimage selection, digest, key and signature decoding)
use vstd::prelude::*;
use vstd::std_specs::convert::*;
use vstd::std_specs::ops::*;
use vstd::std_specs::cmp::*;
//@include shims/macros.rs
verus! {
//@include shims/core.rs
//@include shims/alloc_free.rs
//@include shims/cursor.rs
//@include spec/hash.rs
//@enum BSVErrors @ src/errors/mod.rs
//@enum OpCodes @ src/script/op_codes.rs clone copy partialeq eq
//@enumtable OpCodes @ src/script/op_codes.rs from_u8
//@enum InterpreterError @ src/interpreter/errors.rs
//@enum SigningHash @ src/ecdsa/mod.rs clone copy partialeq eq
//@include shims/asref.rs
//@include shims/codecs.rs
//@include shims/k256.rs
//@include shims/ecdsa_ops.rs
//@include shims/sha256r_traits.rs
//@include shims/bigint.rs
//@include spec/scriptnum.rs
//@enum ScriptBit @ src/script/script_bit.rs clonespec
//@struct Script @ src/script/mod.rs clone default
//@struct Hash @ src/hash/mod.rs clone
//@enum SigHash @ src/transaction/sighash.rs clone copy partialeq eq
//@enumtable SigHash @ src/transaction/sighash.rs from_u8
//@struct HashCache @ src/transaction/sighash.rs clone
//@struct TxIn @ src/transaction/txin.rs clone
//@struct TxOut @ src/transaction/txout.rs clone
//@struct Transaction @ src/transaction/mod.rs clone
//@include spec/script.rs
//@include spec/script_tok.rs
//@include spec/varint.rs
//@include spec/tx.rs
//@include spec/sighash.rs
//@include spec/checksig.rs
//@struct PublicKey @ src/keypair/public_key.rs clone
//@struct RecoveryInfo @ src/signature/mod.rs clone default
//@struct Signature @ src/signature/mod.rs clone
//@struct SighashSignature @ src/transaction/sighash.rs
//@enum Status @ src/interpreter/mod.rs clone
//@struct State @ src/interpreter/state.rs clone
//@struct TxScript @ src/interpreter/mod.rs clone
impl TryFromSpecImpl<u8> for SigHash { open spec fn obeys_try_from_spec() -> bool { false } open spec fn try_from_spec(v: u8) -> Result<Self, BSVErrors> { arbitrary() } }
impl TryFrom<u8> for SigHash {
    type Error = BSVErrors;
//@stub TryFrom<u8> for SigHash::try_from
}
impl BSVErrors { #[verifier::external_body] pub fn to_string(&self) -> String { unimplemented!() } }
pub trait GetFromV<T> { spec fn gf_view(&self) -> Seq<T>; fn get_from_v(&self, from: usize) -> (r: Option<&[T]>) ensures (r is Some) == (from <= self.gf_view().len()), r is Some ==> r->Some_0@ == self.gf_view().subrange(from as int, self.gf_view().len() as int); }
impl<T> GetFromV<T> for Vec<T> { open spec fn gf_view(&self) -> Seq<T> { self@ } #[verifier::external_body] fn get_from_v(&self, from: usize) -> (r: Option<&[T]>) { self.get(from..) } }
pub trait ScriptStack {
    fn pop_bytes(&mut self) -> Result<Vec<u8>, InterpreterError>;
    fn pop_number(&mut self) -> Result<i32, InterpreterError>;
}
impl ScriptStack for Vec<Vec<u8>> {
//@stub ScriptStack for Vec<Vec<u8>>::pop_bytes
//@stub ScriptStack for Vec<Vec<u8>>::pop_number
}
impl Script {
//@fn Script::to_script_bits
//@fn Script::from_script_bits
    #[verifier::external_body] pub fn to_asm_string(&self) -> (r: String) { unimplemented!() }
//@stub Script::to_bytes
//@stub Script::from_bytes
}
impl TxIn {
//@fn TxIn::get_unlocking_script
//@fn TxIn::get_locking_script
//@fn TxIn::get_satoshis
//@fn TxIn::get_finalised_script_impl
//@wrapper TxIn::get_finalised_script @ src/transaction/txin.rs = TxIn::get_finalised_script_impl
}
impl PublicKey {
//@stub PublicKey::from_bytes_impl
//@stub PublicKey::to_bytes_impl
}
impl SighashSignature {
//@stub SighashSignature::from_bytes_impl
}
//@struct PrivateKey @ src/keypair/private_key.rs clone
pub struct ECDSA {}
impl ECDSA {
//@stub ECDSA::verify_hashbuf_impl
//@stub ECDSA::sign_with_deterministic_k_impl
}
impl Transaction {
//@stub Transaction::get_input
//@stub Transaction::sighash_preimage_impl
//@fn Transaction::_verify
//@fn Transaction::sign_impl
//@wrapper Transaction::sign @ src/transaction/sighash.rs = Transaction::sign_impl
//@wrapper Transaction::sighash_preimage @ src/transaction/sighash.rs = Transaction::sighash_preimage_impl
}
//@fn verify_tx_signature
//@fn calculate_sighash_preimage
//@fn checksig
//@fn multisig
} // verus!
fn main() {}
