// unit aes_glue (C20, C09): AES mode dispatch and totality
use vstd::prelude::*;
//@include shims/macros.rs
verus! {
//@include shims/core.rs
//@include shims/alloc_free.rs
//@enum BSVErrors @ src/errors/mod.rs
//@include shims/aes.rs
//@enum AESAlgorithms @ src/encryption/mod.rs clone copy
pub struct AES;
impl AES {
//@fn AES::aes_ctr
//@fn AES::encrypt_impl
//@wrapper AES::encrypt @ src/encryption/mod.rs = AES::encrypt_impl
//@fn AES::decrypt_impl
//@wrapper AES::decrypt @ src/encryption/mod.rs = AES::decrypt_impl
}
// property-level lemmas over the contracts: decryption inverts encryption, ciphertext lengths
pub proof fn lemma_cbc_roundtrip<C>(key: Seq<u8>, iv: Seq<u8>, m: Seq<u8>)
    ensures spec_cbc_dec::<C>(key, iv, spec_cbc_enc::<C>(key, iv, m)) == Some(m), spec_cbc_enc::<C>(key, iv, m).len() == (m.len() / 16 + 1) * 16
{ axiom_cbc_dec_enc::<C>(key, iv, m); axiom_cbc_len::<C>(key, iv, m); }
} // verus!
fn main() {}
