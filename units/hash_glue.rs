// unit hash_glue (C13): one-shot hash wrappers, HMAC argument order, streaming adapters, PBKDF2 dispatch
use vstd::prelude::*;
//@include shims/macros.rs
verus! {
//@include shims/core.rs
//@include shims/alloc_free.rs
//@include spec/hash.rs
//@include shims/asref.rs
//@include shims/digest.rs
//@struct Hash @ src/hash/mod.rs clone
// The adapters' trait-impl functions are emitted as inherent methods (Verus mis-handles trait methods with their own
// generic parameter); dispatch from dependency code through the traits is part of the assumed shim contracts.
//@struct Sha256d @ src/hash/sha256d_digest.rs clone default
impl OutSize for Sha256d { type OutputSize = U32; }
impl Update for Sha256d {
    open spec fn absorbed_(&self) -> Seq<u8> { self.engine.absorbed@ }
    open spec fn rest_(&self) -> bool { self.reverse }
//@fn Update for Sha256d::update
}
impl ReversibleDigest for Sha256d {
//@fn ReversibleDigest for Sha256d::reverse
}
impl Reset for Sha256d {
    open spec fn absorbed_r(&self) -> Seq<u8> { self.engine.absorbed@ }
//@fn Reset for Sha256d::reset
}
impl FixedOutput for Sha256d {
//@fn FixedOutput for Sha256d::finalize_into
//@fn FixedOutput for Sha256d::finalize_into_reset
//@fn FixedOutput for Sha256d::finalize_fixed
}
//@struct Sha256r @ src/hash/sha256r_digest.rs clone default
impl OutSize for Sha256r { type OutputSize = U32; }
impl Update for Sha256r {
    open spec fn absorbed_(&self) -> Seq<u8> { self.engine.absorbed@ }
    open spec fn rest_(&self) -> bool { self.reverse }
//@fn Update for Sha256r::update
}
impl ReversibleDigest for Sha256r {
//@fn ReversibleDigest for Sha256r::reverse
}
impl Reset for Sha256r {
    open spec fn absorbed_r(&self) -> Seq<u8> { self.engine.absorbed@ }
//@fn Reset for Sha256r::reset
}
impl FixedOutput for Sha256r {
//@fn FixedOutput for Sha256r::finalize_into
//@fn FixedOutput for Sha256r::finalize_into_reset
//@fn FixedOutput for Sha256r::finalize_fixed
}
//@struct Hash160 @ src/hash/hash160_digest.rs clone
impl OutSize for Hash160 { type OutputSize = U20; }
impl Hash160 {
//@fn Hash160::new
}
impl Default for Hash160 {
//@fn Default for Hash160::default
}
impl Update for Hash160 {
    open spec fn absorbed_(&self) -> Seq<u8> { self.engine.absorbed@ }
    open spec fn rest_(&self) -> bool { self.reverse }
//@fn Update for Hash160::update
}
impl ReversibleDigest for Hash160 {
//@fn ReversibleDigest for Hash160::reverse
}
impl Reset for Hash160 {
    open spec fn absorbed_r(&self) -> Seq<u8> { self.engine.absorbed@ }
//@fn Reset for Hash160::reset
}
impl FixedOutputDirty for Hash160 {
//@fn FixedOutputDirty for Hash160::finalize_into_dirty
}
// Blanket `digest::Digest::digest(data)` for the repository's adapters (assumed: Default::default() + update(data)
// + finalize_fixed / finalize_into_dirty, whose results are the proof obligations above; derive(Default) gives reverse == false)
impl Sha256d { #[verifier::external_body] pub fn digest<S: AsRef<[u8]>>(data: S) -> (r: GenericArray<u8, U32>) ensures r@ == spec_sha256d(data.bytes_v()) { unimplemented!() } }
impl Sha256r { #[verifier::external_body] pub fn digest<S: AsRef<[u8]>>(data: S) -> (r: GenericArray<u8, U32>) ensures r@ == spec_sha256(data.bytes_v()) { unimplemented!() } }
impl Hash160 { #[verifier::external_body] pub fn digest<S: AsRef<[u8]>>(data: S) -> (r: GenericArray<u8, U20>) ensures r@ == spec_hash160(data.bytes_v()) { unimplemented!() } }
impl BlockInput for Sha256d { type BlockSize = U64; } impl BlockInput for Hash160 { type BlockSize = U64; }
impl FixedOutput for Hash160 {
    #[verifier::external_body] fn finalize_into(self, out: &mut digest::generic_array::GenericArray<u8, Self::OutputSize>) { unimplemented!() }
    #[verifier::external_body] fn finalize_into_reset(&mut self, out: &mut digest::generic_array::GenericArray<u8, Self::OutputSize>) { unimplemented!() }
    #[verifier::external_body] fn finalize_fixed(self) -> digest::generic_array::GenericArray<u8, Self::OutputSize> { unimplemented!() }
}
impl Hash {
//@fn Hash::to_bytes
//@fn Hash::sha_256d
//@fn Hash::sha_256
//@fn Hash::sha_1
//@fn Hash::ripemd_160
//@fn Hash::hash_160
//@fn Hash::sha_512
}
impl Hash {
//@fn Hash::hmac
//@fn Hash::sha_512_hmac
//@fn Hash::sha_256_hmac
//@fn Hash::sha_256d_hmac
//@fn Hash::sha_1_hmac
//@fn Hash::ripemd_160_hmac
//@fn Hash::hash_160_hmac
}
//@enum SigningHash @ src/ecdsa/mod.rs clone copy partialeq eq
pub trait HashDigest: Sized { spec fn hd_absorbed(&self) -> Seq<u8>; spec fn hd_reversed(&self) -> bool; }
impl HashDigest for Sha256r { open spec fn hd_absorbed(&self) -> Seq<u8> { self.engine.absorbed@ } open spec fn hd_reversed(&self) -> bool { self.reverse } }
//@fn get_hash_digest
//@enum PBKDF2Hashes @ src/kdf/pbkdf2_kdf.rs clone copy
//@struct KDF @ src/kdf/mod.rs clone
impl KDF {
//@fn KDF::pbkdf2_impl
}
} // verus!
fn main() {}
