// unit script_parse (C02): tokenizer and conditional re-nesting against the independent strict tokenizer spec
use vstd::prelude::*;
//@include shims/macros.rs
verus! {
//@include shims/core.rs
//@include shims/alloc_free.rs
//@include shims/cursor.rs
//@include shims/asref.rs
//@include shims/codecs.rs
//@include spec/hash.rs
//@enum BSVErrors @ src/errors/mod.rs
//@enum OpCodes @ src/script/op_codes.rs clone copy partialeq eq
//@enumtable OpCodes @ src/script/op_codes.rs from_u8
//@enum ScriptBit @ src/script/script_bit.rs clonespec
//@struct Script @ src/script/mod.rs clone
//@include spec/script.rs
//@include spec/script_tok.rs
impl Script {
//@fn Script::from_bytes
//@fn Script::from_hex
//@fn Script::read_pass
//@fn Script::read_fail
//@fn Script::read_if_statement
//@fn Script::if_statement_pass
//@fn Script::get_pushdata_prefix_bytes
//@fn Script::get_pushdata_bytes
//@fn Script::encode_pushdata
//@fn Script::from_coinbase_bytes
}
pub struct VarInt {}
impl VarInt {
//@fn VarInt::get_pushdata_opcode
}
} // verus!
fn main() {}
