// unit sighash_forkid (C03, C04): FORKID preimage against the replay-protected sighash specification
use vstd::prelude::*;
//@include shims/macros.rs
verus! {
//@include shims/core.rs
//@include shims/alloc_free.rs
//@include shims/cursor.rs
//@include shims/asref.rs
//@include shims/codecs.rs
//@include spec/hash.rs
//@enum BSVErrors @ src/errors/mod.rs
//@enum OpCodes @ src/script/op_codes.rs clone copy partialeq eq
//@enumtable OpCodes @ src/script/op_codes.rs from_u8
//@enum ScriptBit @ src/script/script_bit.rs clonespec
//@struct Script @ src/script/mod.rs clone
//@struct Hash @ src/hash/mod.rs clone
//@enum SigHash @ src/transaction/sighash.rs clone copy partialeq eq
//@enumtable SigHash @ src/transaction/sighash.rs from_u8
//@struct HashCache @ src/transaction/sighash.rs clone
//@struct TxIn @ src/transaction/txin.rs clone
//@struct TxOut @ src/transaction/txout.rs clone
//@struct Transaction @ src/transaction/mod.rs clone
//@include spec/script.rs
//@include spec/script_tok.rs
//@include spec/varint.rs
//@include spec/tx.rs
//@include spec/sighash.rs
//@include shims/varint.rs
impl Script {
//@stub Script::to_bytes
//@stubrest Script
}
impl Hash {
//@stub Hash::sha_256d
//@stub Hash::to_bytes
}
impl TxIn {
//@fn TxIn::get_prev_tx_id
//@fn TxIn::get_sequence
//@fn TxIn::get_outpoint_bytes
//@fn TxIn::get_sequence_as_bytes
//@stubrest TxIn
}
impl TxOut {
//@stub TxOut::to_bytes_impl
//@stubrest TxOut
}
impl Transaction {
//@stub Transaction::get_input
//@stub Transaction::get_ninputs
//@stub Transaction::get_version
//@stub Transaction::get_n_locktime
//@stub Transaction::get_output
//@stub Transaction::get_noutputs
//@fn Transaction::hash_inputs
//@fn Transaction::hash_sequence
//@fn Transaction::hash_outputs
//@fn Transaction::sighash_bip143
//@stubrest Transaction
}
//@prooffn SigHash::flag_values spec/sighash_table.rs @ src/transaction/sighash.rs
} // verus!
fn main() {}
