// unit bsm_glue (C12): Bitcoin Signed Message construction, signing and verification wiring
use vstd::prelude::*;
use vstd::std_specs::convert::*;
//@include shims/macros.rs
verus! {
//@include shims/core.rs
//@include shims/alloc_free.rs
//@include spec/hash.rs
//@include spec/varint.rs
//@include spec/bsm.rs
//@enum BSVErrors @ src/errors/mod.rs
//@enum SigningHash @ src/ecdsa/mod.rs clone copy partialeq eq
//@include shims/asref.rs
//@include shims/codecs.rs
//@include shims/k256.rs
//@include shims/varint_writer.rs
//@constbytes MAGIC_BYTES @ src/bsm/mod.rs
//@struct PrivateKey @ src/keypair/private_key.rs clone
//@struct PublicKey @ src/keypair/public_key.rs clone
//@struct RecoveryInfo @ src/signature/mod.rs clone default
//@struct Signature @ src/signature/mod.rs clone
//@struct P2PKHAddress @ src/address/mod.rs clone
pub struct ECDSA {}
impl ECDSA {
//@stub ECDSA::sign_with_deterministic_k_impl
//@stub ECDSA::sign_with_k_impl
//@stub ECDSA::verify_digest_impl
}
impl Signature {
//@stub Signature::get_public_key
}
impl P2PKHAddress {
//@stub P2PKHAddress::from_pubkey_impl
//@stub P2PKHAddress::to_string_impl
//@stub P2PKHAddress::to_pubkey_hash
}
pub struct BSM {}
impl BSM {
//@fn BSM::prepend_magic_bytes
//@fn BSM::sign_impl
//@wrapper BSM::sign_message @ src/bsm/mod.rs = BSM::sign_impl
//@fn BSM::sign_with_k_impl
//@wrapper BSM::sign_message_with_k @ src/bsm/mod.rs = BSM::sign_with_k_impl
//@fn BSM::verify_message_impl
//@wrapper BSM::verify_message @ src/bsm/mod.rs = BSM::verify_message_impl
}
} // verus!
fn main() {}
