// unit tx_wire (C01): transaction / input / output serialisers and parsers
use vstd::prelude::*;
//@include shims/macros.rs
verus! {
//@include shims/core.rs
//@include shims/alloc_free.rs
//@include shims/cursor.rs
//@include shims/asref.rs
//@include shims/codecs.rs
//@include spec/hash.rs
//@enum BSVErrors @ src/errors/mod.rs
//@enum OpCodes @ src/script/op_codes.rs clone copy partialeq eq
//@enumtable OpCodes @ src/script/op_codes.rs from_u8
//@enum ScriptBit @ src/script/script_bit.rs clonespec
//@struct Script @ src/script/mod.rs clone default
//@struct Hash @ src/hash/mod.rs clone
//@enum SigHash @ src/transaction/sighash.rs clone copy partialeq eq
//@enumtable SigHash @ src/transaction/sighash.rs from_u8
//@struct HashCache @ src/transaction/sighash.rs clone
//@struct TxIn @ src/transaction/txin.rs clone
//@struct TxOut @ src/transaction/txout.rs clone
//@struct Transaction @ src/transaction/mod.rs clone
//@include spec/script.rs
//@include spec/script_tok.rs
//@include spec/varint.rs
//@include spec/tx.rs
//@include spec/sighash.rs
//@include shims/varint.rs
impl HashCache {
//@stub HashCache::new
}
impl Script {
//@stub Script::to_bytes
//@stub Script::get_script_length
//@stub Script::from_bytes
//@stub Script::from_coinbase_bytes
//@stubrest Script
}
impl TxIn {
//@fn TxIn::to_bytes_impl
//@wrapper TxIn::to_bytes @ src/transaction/txin.rs = TxIn::to_bytes_impl
//@fn TxIn::new
//@fn TxIn::is_coinbase_outpoint_impl
//@fn TxIn::is_coinbase_impl
//@wrapper TxIn::is_coinbase @ src/transaction/txin.rs = TxIn::is_coinbase_impl
//@fn TxIn::read_in
//@fn TxIn::from_hex_impl
//@wrapper TxIn::from_hex @ src/transaction/txin.rs = TxIn::from_hex_impl
//@fn TxIn::from_outpoint_bytes_impl
//@wrapper TxIn::from_outpoint_bytes @ src/transaction/txin.rs = TxIn::from_outpoint_bytes_impl
//@fn TxIn::set_prev_tx_id
//@fn TxIn::set_vout
//@stubrest TxIn
}
impl Default for TxIn {
//@fn Default for TxIn::default
}
impl TxOut {
//@fn TxOut::to_bytes_impl
//@wrapper TxOut::to_bytes @ src/transaction/txout.rs = TxOut::to_bytes_impl
//@fn TxOut::get_script_pub_key_size
//@fn TxOut::new
//@fn TxOut::get_satoshis
//@fn TxOut::read_in
//@fn TxOut::from_hex_impl
//@wrapper TxOut::from_hex @ src/transaction/txout.rs = TxOut::from_hex_impl
//@stubrest TxOut
}
impl Hash {
//@stub Hash::sha_256d
//@stub Hash::to_bytes
}
impl Transaction {
//@fn Transaction::to_bytes_impl
//@wrapper Transaction::to_bytes @ src/transaction/mod.rs = Transaction::to_bytes_impl
//@fn Transaction::get_ninputs
//@fn Transaction::get_noutputs
//@fn Transaction::get_version
//@fn Transaction::get_n_locktime
//@fn Transaction::get_input
//@fn Transaction::get_output
//@fn Transaction::get_size_impl
//@wrapper Transaction::get_size @ src/transaction/mod.rs = Transaction::get_size_impl
//@fn Transaction::get_id_impl
//@fn Transaction::is_coinbase_impl
//@wrapper Transaction::is_coinbase @ src/transaction/mod.rs = Transaction::is_coinbase_impl
//@fn Transaction::from_bytes_impl
//@wrapper Transaction::from_bytes @ src/transaction/mod.rs = Transaction::from_bytes_impl
//@fn Transaction::from_hex_impl
//@wrapper Transaction::from_hex @ src/transaction/mod.rs = Transaction::from_hex_impl
//@stubrest Transaction
}
} // verus!
fn main() {}
