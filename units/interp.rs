// unit interp (C14, C16): script stack primitives and the opcode interpreter
use vstd::prelude::*;
use vstd::std_specs::convert::*;
use vstd::std_specs::ops::*;
use vstd::std_specs::cmp::*;
//@include shims/macros.rs
verus! {
//@include shims/core.rs
//@include shims/alloc_free.rs
//@include spec/hash.rs
//@include shims/bigint.rs
//@include spec/scriptnum.rs
//@enum BSVErrors @ src/errors/mod.rs
//@enum OpCodes @ src/script/op_codes.rs clone copy partialeq eq
//@enum InterpreterError @ src/interpreter/errors.rs
pub trait ScriptStack {
    fn push_bytes(&mut self, data: Vec<u8>);
    fn push_bigint(&mut self, bigint: BigInt) -> Result<(), InterpreterError>;
    fn pop_bytes(&mut self) -> Result<Vec<u8>, InterpreterError>;
    fn pop_bigint(&mut self) -> Result<BigInt, InterpreterError>;
    fn push_number(&mut self, val: i64) -> Result<(), InterpreterError>;
    fn push_bool(&mut self, boolean: bool) -> Result<(), InterpreterError>;
    fn pop_number(&mut self) -> Result<i32, InterpreterError>;
    fn pop_bool(&mut self) -> Result<bool, InterpreterError>;
}
//@fn to_bigint
impl ScriptStack for Vec<Vec<u8>> {
//@fn ScriptStack for Vec<Vec<u8>>::push_bytes
//@fn ScriptStack for Vec<Vec<u8>>::pop_bytes
//@fn ScriptStack for Vec<Vec<u8>>::push_bigint
//@fn ScriptStack for Vec<Vec<u8>>::pop_bigint
//@fn ScriptStack for Vec<Vec<u8>>::pop_bool
//@fn ScriptStack for Vec<Vec<u8>>::push_bool
// push_number / pop_number: fixed-width bit arithmetic; contracts ASSUMED here and PROVED by Kani on the real functions
// (harnesses push_number_all_i64: all i64; pop_number_all_short_elements: every element of 0..=5 bytes)
//@stub ScriptStack for Vec<Vec<u8>>::push_number
//@stub ScriptStack for Vec<Vec<u8>>::pop_number
}
} // verus!
fn main() {}
