// unit interp (C14, C16): script stack primitives and the opcode interpreter
use vstd::prelude::*;
use vstd::std_specs::convert::*;
use vstd::std_specs::ops::*;
use vstd::std_specs::cmp::*;
use core::ops::Neg;
//@include shims/macros.rs
verus! {
//@include shims/core.rs
//@include shims/alloc_free.rs
//@include spec/hash.rs
//@include shims/bigint.rs
//@include spec/scriptnum.rs
//@enum BSVErrors @ src/errors/mod.rs
//@enum OpCodes @ src/script/op_codes.rs clone copy partialeq eq
//@enum InterpreterError @ src/interpreter/errors.rs
pub trait ScriptStack {
    fn push_bytes(&mut self, data: Vec<u8>);
    fn push_bigint(&mut self, bigint: BigInt) -> Result<(), InterpreterError>;
    fn pop_bytes(&mut self) -> Result<Vec<u8>, InterpreterError>;
    fn pop_bigint(&mut self) -> Result<BigInt, InterpreterError>;
    fn push_number(&mut self, val: i64) -> Result<(), InterpreterError>;
    fn push_bool(&mut self, boolean: bool) -> Result<(), InterpreterError>;
    fn pop_number(&mut self) -> Result<i32, InterpreterError>;
    fn pop_bool(&mut self) -> Result<bool, InterpreterError>;
}
//@fn to_bigint
impl ScriptStack for Vec<Vec<u8>> {
//@fn ScriptStack for Vec<Vec<u8>>::push_bytes
//@fn ScriptStack for Vec<Vec<u8>>::pop_bytes
//@fn ScriptStack for Vec<Vec<u8>>::push_bigint
//@fn ScriptStack for Vec<Vec<u8>>::pop_bigint
//@fn ScriptStack for Vec<Vec<u8>>::pop_bool
//@fn ScriptStack for Vec<Vec<u8>>::push_bool
// push_number / pop_number: fixed-width bit arithmetic; contracts ASSUMED here and PROVED by Kani on the real functions
// (harnesses push_number_all_i64: all i64; pop_number_all_short_elements: every element of 0..=5 bytes)
//@stub ScriptStack for Vec<Vec<u8>>::push_number
//@stub ScriptStack for Vec<Vec<u8>>::pop_number
}
pub mod stack_trait { pub use super::to_bigint; }
//@enum Status @ src/interpreter/mod.rs clone
//@struct State @ src/interpreter/state.rs clone
//@include spec/bsv_step.rs
//@enum ScriptBit @ src/script/script_bit.rs clonespec
// TxScript carries the spending transaction: opaque here (CHECKSIG wiring is unit interp_sig / property C15)
pub struct TxScript { pub input_index: usize }
impl Clone for TxScript { #[verifier::external_body] fn clone(&self) -> (r: Self) ensures r == *self { unimplemented!() } }
//@struct Interpreter @ src/interpreter/mod.rs
//@include spec/interp.rs
// checksig / multisig as seen from match_opcode: the abstraction of their contracts proved in unit interp_sig (C15).
// The verdict is an uninterpreted function of the operands here; which signatures it accepts is interp_sig's business.
// The stack-protocol and frame clauses are the clauses [pops_key_then_signature], [stack_protocol...], [touches_only_the_main_stack] of interp_sig.
pub uninterp spec fn checksig_verdict(stack: Seq<Vec<u8>>, cs_offset: usize, t: TxScript) -> Option<bool>;
pub uninterp spec fn multisig_verdict(stack: Seq<Vec<u8>>, cs_offset: usize, t: TxScript) -> Option<bool>;
pub open spec fn multisig_consumed(st: Seq<Vec<u8>>) -> int { let l = st.len() as int; let n = scriptnum(st[l - 1]@); let m = scriptnum(st[l - 2 - n]@); n + m + 3 }
#[verifier::external_body] pub fn checksig(state: &mut State, txscript: &mut TxScript) -> (r: Result<bool, InterpreterError>)
    ensures
        final(state).alt_stack@ == old(state).alt_stack@ && final(state).status == old(state).status && final(state).executed_opcodes@ == old(state).executed_opcodes@ && final(state).codeseparator_offset == old(state).codeseparator_offset,
        (r is Ok) == (checksig_verdict(old(state).stack@, old(state).codeseparator_offset, *old(txscript)) is Some),
        r is Ok ==> r->Ok_0 == checksig_verdict(old(state).stack@, old(state).codeseparator_offset, *old(txscript))->Some_0,
        r is Ok ==> old(state).stack@.len() >= 2 && final(state).stack@ == old(state).stack@.subrange(0, old(state).stack@.len() - 2),
{ unimplemented!() }
#[verifier::external_body] pub fn multisig(state: &mut State, txscript: &mut TxScript) -> (r: Result<bool, InterpreterError>)
    ensures
        final(state).alt_stack@ == old(state).alt_stack@ && final(state).status == old(state).status && final(state).executed_opcodes@ == old(state).executed_opcodes@ && final(state).codeseparator_offset == old(state).codeseparator_offset,
        (r is Ok) == (multisig_verdict(old(state).stack@, old(state).codeseparator_offset, *old(txscript)) is Some),
        r is Ok ==> r->Ok_0 == multisig_verdict(old(state).stack@, old(state).codeseparator_offset, *old(txscript))->Some_0,
        r is Ok ==> old(state).stack@.len() >= 1 && 3 <= multisig_consumed(old(state).stack@) <= old(state).stack@.len() && final(state).stack@ == old(state).stack@.subrange(0, old(state).stack@.len() - multisig_consumed(old(state).stack@)),
{ unimplemented!() }
//@struct Hash @ src/hash/mod.rs clone
impl Hash {
//@stub Hash::to_bytes
//@stub Hash::sha_256d
//@stub Hash::sha_256
//@stub Hash::sha_1
//@stub Hash::ripemd_160
//@stub Hash::hash_160
}
impl Interpreter {
//@fn Interpreter::verify
//@fn Interpreter::match_opcode
//@fn Interpreter::match_script_bit
//@fn Interpreter::next_impl
//@fn Interpreter::run_impl
//@wrapper Interpreter::run @ src/interpreter/mod.rs = Interpreter::run_impl
}
//@fncases Interpreter::match_opcode in impl Interpreter
//@prooffn OpCodes::wire_values spec/opcode_table.rs @ src/script/op_codes.rs
} // verus!
fn main() {}
