// unit keys_glue (C07, C09): SEC1 public keys, private keys, P2PKH addresses
use vstd::prelude::*;
use vstd::std_specs::convert::*;
use vstd::std_specs::cmp::*;
//@include shims/macros.rs
verus! {
//@include shims/core.rs
//@include shims/alloc_free.rs
//@include spec/hash.rs
//@enum BSVErrors @ src/errors/mod.rs
//@enum SigningHash @ src/ecdsa/mod.rs clone copy partialeq eq
//@include shims/asref.rs
//@include shims/codecs.rs
//@include shims/k256.rs
pub trait ToHex { fn to_hex(&self) -> String; }
impl ToHex for Vec<u8> {
//@fn ToHex for Vec<u8>::to_hex
}
impl ToHex for [u8] {
//@fn ToHex for [u8]::to_hex
}
//@struct PrivateKey @ src/keypair/private_key.rs clone
//@struct PublicKey @ src/keypair/public_key.rs clone
impl PublicKey {
//@fn PublicKey::from_bytes_impl
//@fn PublicKey::from_bytes
//@fn PublicKey::from_hex_impl
//@wrapper PublicKey::from_hex @ src/keypair/public_key.rs = PublicKey::from_hex_impl
//@fn PublicKey::from_encoded_point
//@fn PublicKey::to_bytes_impl
//@wrapper PublicKey::to_bytes @ src/keypair/public_key.rs = PublicKey::to_bytes_impl
//@fn PublicKey::to_compressed_impl
//@wrapper PublicKey::to_compressed @ src/keypair/public_key.rs = PublicKey::to_compressed_impl
//@fn PublicKey::to_decompressed_impl
//@wrapper PublicKey::to_decompressed @ src/keypair/public_key.rs = PublicKey::to_decompressed_impl
//@fn PublicKey::from_private_key_impl
//@wrapper PublicKey::from_private_key @ src/keypair/public_key.rs = PublicKey::from_private_key_impl
}
impl PrivateKey {
//@fn PrivateKey::get_point
//@fn PrivateKey::from_bytes_impl
//@wrapper PrivateKey::from_bytes @ src/keypair/private_key.rs = PrivateKey::from_bytes_impl
//@fn PrivateKey::to_bytes
//@fn PrivateKey::compress_public_key
//@fn PrivateKey::to_public_key_impl
//@wrapper PrivateKey::to_public_key @ src/keypair/private_key.rs = PrivateKey::to_public_key_impl
//@fn PrivateKey::from_hex_impl
//@wrapper PrivateKey::from_hex @ src/keypair/private_key.rs = PrivateKey::from_hex_impl
//@fn PrivateKey::from_wif_impl
//@wrapper PrivateKey::from_wif @ src/keypair/private_key.rs = PrivateKey::from_wif_impl
}
//@struct Hash @ src/hash/mod.rs clone
impl Hash {
//@stub Hash::to_bytes
//@stub Hash::sha_256d
//@stub Hash::hash_160
}
//@struct ChainParams @ src/chainparams/mod.rs clone
// opaque stand-ins: the script text built by format!() is outside this technique
pub struct Script; pub struct SighashSignature;
// BSVErrors::GenerateScript is constructed at exactly one place in /repo/src (the ownership check of to_unlocking_script_impl);
// the generator re-checks that on every run (//@onlyonce), so these callees cannot return it
//@onlyonce `BSVErrors::GenerateScript(` in src
impl Script { #[verifier::external_body] pub fn from_asm_string(asm: &str) -> (r: Result<Script, BSVErrors>) ensures r is Err ==> !(r->Err_0 is GenerateScript) { unimplemented!() } }
impl SighashSignature { #[verifier::external_body] pub fn to_hex_impl(&self) -> (r: Result<String, BSVErrors>) ensures r is Err ==> !(r->Err_0 is GenerateScript) { unimplemented!() } }
impl PublicKey { #[verifier::external_body] pub fn to_hex_impl(&self) -> (r: Result<String, BSVErrors>) ensures r is Err ==> !(r->Err_0 is GenerateScript) { unimplemented!() } }
//@struct P2PKHAddress @ src/address/mod.rs clone partialeqspec
impl P2PKHAddress {
//@fn P2PKHAddress::from_pubkey_hash_impl
//@wrapper P2PKHAddress::from_pubkey_hash @ src/address/mod.rs = P2PKHAddress::from_pubkey_hash_impl
//@fn P2PKHAddress::from_pubkey_impl
//@wrapper P2PKHAddress::from_pubkey @ src/address/mod.rs = P2PKHAddress::from_pubkey_impl
//@fn P2PKHAddress::set_chain_params_impl
//@fn P2PKHAddress::to_string_impl
//@wrapper P2PKHAddress::to_string @ src/address/mod.rs = P2PKHAddress::to_string_impl
//@fn P2PKHAddress::from_string_impl
//@wrapper P2PKHAddress::from_string @ src/address/mod.rs = P2PKHAddress::from_string_impl
//@fn P2PKHAddress::to_pubkey_hash
//@fn P2PKHAddress::to_unlocking_script_impl
//@wrapper P2PKHAddress::get_unlocking_script @ src/address/mod.rs = P2PKHAddress::to_unlocking_script_impl
}
} // verus!
fn main() {}
