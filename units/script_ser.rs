// unit script_ser (C02, used by C01/C03/C10): the serialiser of parsed scripts against the wire-format spec
use vstd::prelude::*;
//@include shims/macros.rs
verus! {
//@include shims/core.rs
//@include shims/alloc_free.rs
//@include spec/hash.rs
//@enum OpCodes @ src/script/op_codes.rs clone copy partialeq eq
//@enumtable OpCodes @ src/script/op_codes.rs from_u8
//@enum ScriptBit @ src/script/script_bit.rs
//@struct Script @ src/script/mod.rs clone
//@include spec/script.rs
//@include spec/script_tok.rs
impl Script {
//@fn Script::script_bits_to_bytes
//@fn Script::to_bytes
//@fn Script::get_script_length
}
//@prooffn OpCodes::wire_values spec/opcode_table.rs @ src/script/op_codes.rs
} // verus!
fn main() {}
