// unit signature_glue (C06, C09): signature encodings and recovery wiring
use vstd::prelude::*;
use vstd::std_specs::convert::*;
//@include shims/macros.rs
verus! {
//@include shims/core.rs
//@include shims/alloc_free.rs
//@include spec/hash.rs
//@enum BSVErrors @ src/errors/mod.rs
//@enum SigningHash @ src/ecdsa/mod.rs clone copy partialeq eq
//@enum SigHash @ src/transaction/sighash.rs clone copy partialeq eq
//@enumtable SigHash @ src/transaction/sighash.rs from_u8
//@include shims/asref.rs
//@include shims/codecs.rs
//@include shims/k256.rs
//@include shims/ga32.rs
#[verifier::external_body] pub fn get_hash_digest(hash_algo: SigningHash, preimage: &[u8]) -> (r: Sha256rV)
    ensures hash_algo is Sha256 ==> r.hd_absorbed() == preimage@ && !r.hd_reversed(), hash_algo is Sha256d ==> r.hd_absorbed() == spec_sha256(preimage@) && !r.hd_reversed() { unimplemented!() }
//@struct PublicKey @ src/keypair/public_key.rs clone
impl PublicKey {
//@stub PublicKey::from_bytes_impl
//@stub PublicKey::from_bytes
}
//@struct RecoveryInfo @ src/signature/mod.rs clone default
//@struct Signature @ src/signature/mod.rs clone
//@struct SighashSignature @ src/transaction/sighash.rs
// vstd gives TryFrom::try_from an inherited postcondition `obeys_try_from_spec() ==> r == try_from_spec(v)`: opt out
impl TryFromSpecImpl<u8> for SigHash { open spec fn obeys_try_from_spec() -> bool { false } open spec fn try_from_spec(v: u8) -> Result<Self, BSVErrors> { arbitrary() } }
impl TryFrom<u8> for SigHash {
    type Error = BSVErrors;
//@fn TryFrom<u8> for SigHash::try_from
}
impl RecoveryInfo {
//@fn RecoveryInfo::new
//@fn RecoveryInfo::from_byte
}
impl Signature {
//@fn Signature::from_der_impl
//@wrapper Signature::from_der @ src/signature/mod.rs = Signature::from_der_impl
//@fn Signature::from_hex_der_impl
//@wrapper Signature::from_hex_der @ src/signature/mod.rs = Signature::from_hex_der_impl
//@fn Signature::to_der_bytes
//@fn Signature::to_compact_bytes
//@fn Signature::from_compact_impl
//@wrapper Signature::from_compact_bytes @ src/signature/mod.rs = Signature::from_compact_impl
//@fn Signature::get_public_key
//@wrapper Signature::recover_public_key @ src/signature/mod.rs = Signature::get_public_key
//@fn Signature::get_public_key_from_digest
//@wrapper Signature::recover_public_key_from_digest @ src/signature/mod.rs = Signature::get_public_key_from_digest
    #[verifier::external_body] pub fn to_der_hex(&self) -> (r: String) { unimplemented!() }
}
impl SighashSignature {
//@fn SighashSignature::to_bytes_impl
//@wrapper SighashSignature::to_bytes @ src/transaction/sighash.rs = SighashSignature::to_bytes_impl
//@fn SighashSignature::from_bytes_impl
//@wrapper SighashSignature::from_bytes @ src/transaction/sighash.rs = SighashSignature::from_bytes_impl
}
// ---- property-level lemmas over the contracts above ----
// compact header arithmetic: decode(encode(y, x, c)) == (y, x, c) for all eight combinations
pub proof fn lemma_compact_header_roundtrip(y: bool, x: bool, c: bool)
    ensures ({ let h = 27 + (if y { 1int } else { 0 }) + (if x { 2int } else { 0 }) + (if c { 4int } else { 0 });
        27 <= h <= 34 && (h >= 31) == c && ((h - 27) % 2 == 1) == y && (((h - 27) / 2) % 2 == 1) == x })
{ }
// DER and DER+flag both resolve to the same signature, whatever the last DER byte is
pub proof fn lemma_der_cases(sig: SigV, f: u8)
    requires valid_sig_scalars(sig.r, sig.s)
    ensures der_dec(der_enc(sig)) == Some(sig), der_dec(der_enc(sig).push(f)) is None, der_enc(sig).push(f).drop_last() == der_enc(sig)
{ axiom_der_roundtrip(sig); axiom_der_no_trailing(der_enc(sig), f); assert(der_enc(sig).push(f).drop_last() == der_enc(sig)); }
//@prooffn SigHash::flag_values spec/sighash_table.rs @ src/transaction/sighash.rs
} // verus!
fn main() {}
