// unit ecdsa_glue (C05): signers, verifiers and ECDH over the uninterpreted ECDSA primitives
use vstd::prelude::*;
use vstd::std_specs::convert::*;
//@include shims/macros.rs
verus! {
//@include shims/core.rs
//@include shims/alloc_free.rs
//@include spec/hash.rs
//@enum BSVErrors @ src/errors/mod.rs
//@enum SigningHash @ src/ecdsa/mod.rs clone copy partialeq eq
//@include shims/asref.rs
//@include shims/codecs.rs
//@include shims/k256.rs
//@include shims/ecdsa_ops.rs
//@include shims/ga32.rs
//@include shims/sha256r_traits.rs
//@struct PrivateKey @ src/keypair/private_key.rs clone
//@struct PublicKey @ src/keypair/public_key.rs clone
impl PublicKey {
//@stub PublicKey::to_bytes_impl
}
//@struct RecoveryInfo @ src/signature/mod.rs clone default
//@struct Signature @ src/signature/mod.rs clone
impl RecoveryInfo {
//@stub RecoveryInfo::new
}
pub struct ECDSA {}
impl ECDSA {
//@fn ECDSA::sign_preimage_deterministic_k
//@fn ECDSA::sign_digest_bytes_deterministic_k
//@fn ECDSA::sign_preimage_random_k
//@fn ECDSA::sign_with_k_impl
//@wrapper ECDSA::sign_with_k @ src/ecdsa/sign.rs = ECDSA::sign_with_k_impl
//@fn ECDSA::sign_digest_with_deterministic_k_impl
//@fn ECDSA::sign_with_deterministic_k_impl
//@wrapper ECDSA::sign_with_deterministic_k @ src/ecdsa/sign.rs = ECDSA::sign_with_deterministic_k_impl
//@fn ECDSA::sign_with_random_k_impl
//@wrapper ECDSA::sign_with_random_k @ src/ecdsa/sign.rs = ECDSA::sign_with_random_k_impl
//@fn ECDSA::verify_digest_impl
//@wrapper ECDSA::verify_digest @ src/ecdsa/verify.rs = ECDSA::verify_digest_impl
//@fn ECDSA::verify_hashbuf_impl
//@fn ECDSA::verify_hashbuf
//@fn ECDSA::sign_digest_with_deterministic_k
}
pub struct ECDH {}
impl ECDH {
//@fn ECDH::derive_shared_key_impl
//@wrapper ECDH::derive_shared_key @ src/ecdsa/ecdh.rs = ECDH::derive_shared_key_impl
}
// ---- property-level lemmas over the contracts above ----
// Every signer returns ecdsa_sign(d, k, z) with z = reduce_be(selected digest), exactly the z of verify_digest_impl /
// verify_hashbuf_impl; so (ECDSA axiom) the signature verifies under the signer's public key in either compression form.
pub proof fn lemma_signatures_verify(d: Seq<u8>, k: Seq<u8>, z: Seq<u8>, compressed: bool)
    requires valid_secret(d), ecdsa_sign(d, k, z) is Some
    ensures ({ let pk = sec1_form(pub_of(d), compressed); sec1_valid(pk) && ecdsa_verify(sec1_point(pk), z, ecdsa_sign(d, k, z)->Some_0.0) })
{ axiom_pub_valid(d, compressed); axiom_sec1_forms(pub_of(d), compressed); axiom_sign_verifies(d, k, z); }
// Diffie-Hellman is symmetric between the two parties
pub proof fn lemma_ecdh_symmetric(a: Seq<u8>, b: Seq<u8>)
    requires valid_secret(a), valid_secret(b)
    ensures pt_x(pt_mul(pub_of(b), a)) == pt_x(pt_mul(pub_of(a), b))
{ axiom_ecdh_commutes(a, b); }
} // verus!
fn main() {}
