// unit sighash_legacy (C10, C03 dispatch): legacy preimage against the original SignatureHash algorithm
use vstd::prelude::*;
//@include shims/macros.rs
verus! {
//@include shims/core.rs
//@include shims/alloc_free.rs
//@include shims/cursor.rs
//@include shims/asref.rs
//@include shims/codecs.rs
//@include spec/hash.rs
//@enum BSVErrors @ src/errors/mod.rs
//@enum OpCodes @ src/script/op_codes.rs clone copy partialeq eq
//@enumtable OpCodes @ src/script/op_codes.rs from_u8
//@enum ScriptBit @ src/script/script_bit.rs clonespec
//@struct Script @ src/script/mod.rs clone default
//@struct Hash @ src/hash/mod.rs clone
//@enum SigHash @ src/transaction/sighash.rs clone copy partialeq eq
//@enumtable SigHash @ src/transaction/sighash.rs from_u8
//@struct HashCache @ src/transaction/sighash.rs clone
//@struct TxIn @ src/transaction/txin.rs clone
//@struct TxOut @ src/transaction/txout.rs clone
//@struct Transaction @ src/transaction/mod.rs clone
//@include spec/script.rs
//@include spec/script_tok.rs
//@include spec/varint.rs
//@include spec/tx.rs
//@include spec/sighash.rs
//@include shims/varint.rs
impl Script {
//@stub Script::to_bytes
//@fn Script::strip_codeseparators
//@fn Script::remove_codeseparators
//@stubrest Script
}
impl TxIn {
//@fn TxIn::set_unlocking_script
//@fn TxIn::set_sequence
//@stubrest TxIn
}
impl TxOut {
//@stub TxOut::new
//@stubrest TxOut
}
impl Transaction {
//@stub Transaction::get_input
//@stub Transaction::get_ninputs
//@stub Transaction::get_version
//@stub Transaction::get_n_locktime
//@stub Transaction::get_output
//@stub Transaction::get_noutputs
//@stub Transaction::set_input
//@stub Transaction::set_output
//@stub Transaction::add_input
//@stub Transaction::to_bytes_impl
//@stub Transaction::sighash_bip143
//@fn Transaction::sighash_legacy
//@fn Transaction::sighash_preimage_impl
//@wrapper Transaction::sighash_preimage @ src/transaction/sighash.rs = Transaction::sighash_preimage_impl
//@stubrest Transaction
}
//@prooffn SigHash::flag_values spec/sighash_table.rs @ src/transaction/sighash.rs
} // verus!
fn main() {}
