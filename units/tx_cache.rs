// unit tx_cache (C04): every constructor establishes, and every &mut self operation of
// Transaction preserves per slot, the invariant "a memoised hash is absent or is the hash of the
// CURRENT contents".
use vstd::prelude::*;
//@include shims/macros.rs
verus! {
//@include shims/core.rs
//@include shims/alloc_free.rs
//@include shims/cursor.rs
//@include shims/asref.rs
//@include shims/codecs.rs
//@enum BSVErrors @ src/errors/mod.rs
//@include spec/hash.rs
//@enum OpCodes @ src/script/op_codes.rs clone copy partialeq eq
//@enumtable OpCodes @ src/script/op_codes.rs from_u8
//@enum ScriptBit @ src/script/script_bit.rs clonespec
//@struct Script @ src/script/mod.rs clone
//@struct Hash @ src/hash/mod.rs clone
//@enum SigHash @ src/transaction/sighash.rs clone copy partialeq eq
//@enumtable SigHash @ src/transaction/sighash.rs from_u8
//@struct HashCache @ src/transaction/sighash.rs clone
//@struct TxIn @ src/transaction/txin.rs clone
//@struct TxOut @ src/transaction/txout.rs clone
//@struct Transaction @ src/transaction/mod.rs clone
//@include spec/script.rs
//@include spec/script_tok.rs
//@include spec/varint.rs
//@include spec/tx.rs
//@include spec/sighash.rs
//@include shims/varint.rs
impl TxIn {
//@stubrest TxIn
}
impl TxOut {
//@stubrest TxOut
}
impl Script {
//@stubrest Script
}
impl HashCache {
//@fn HashCache::new
}
impl Default for Transaction {
//@fn Default for Transaction::default
}
impl Transaction {
//@fn Transaction::new_impl
//@fn Transaction::new
//@fn Transaction::set_version
//@fn Transaction::set_nlocktime
//@fn Transaction::add_input
//@fn Transaction::prepend_input
//@fn Transaction::insert_input
//@fn Transaction::set_input
//@fn Transaction::add_output
//@fn Transaction::prepend_output
//@fn Transaction::insert_output
//@fn Transaction::set_output
//@fn Transaction::add_inputs
//@fn Transaction::add_outputs
//@stubrest Transaction
}
} // verus!
fn main() {}
