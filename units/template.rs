// unit template (C19): script templates and transaction match criteria
use vstd::prelude::*;
use vstd::std_specs::convert::*;
use vstd::std_specs::ops::*;
use vstd::std_specs::cmp::*;
//@include shims/macros.rs
verus! {
//@include shims/core.rs
//@include shims/alloc_free.rs
//@include shims/cursor.rs
//@include spec/hash.rs
//@enum BSVErrors @ src/errors/mod.rs
//@enum OpCodes @ src/script/op_codes.rs clone copy partialeqspec
//@enumtable OpCodes @ src/script/op_codes.rs from_u8
//@enum SigningHash @ src/ecdsa/mod.rs clone copy partialeq eq
//@include shims/asref.rs
//@include shims/codecs.rs
//@include shims/k256.rs
//@enum ScriptBit @ src/script/script_bit.rs clonespec
//@struct Script @ src/script/mod.rs clone default
//@enum SigHash @ src/transaction/sighash.rs clone copy partialeq eq
//@enumtable SigHash @ src/transaction/sighash.rs from_u8
//@struct PublicKey @ src/keypair/public_key.rs clone
//@struct RecoveryInfo @ src/signature/mod.rs clone default
//@struct Signature @ src/signature/mod.rs clone
//@enum ScriptTemplateErrors @ src/script/script_template.rs
//@enum DataLengthConstraints @ src/script/script_template.rs clonespec
//@enum MatchToken @ src/script/script_template.rs clonespec
//@enum MatchDataTypes @ src/script/script_template.rs clonespec
//@struct ScriptTemplate @ src/script/script_template.rs clone
//@struct Hash @ src/hash/mod.rs clone
//@struct HashCache @ src/transaction/sighash.rs clone
//@struct TxIn @ src/transaction/txin.rs clone
//@struct TxOut @ src/transaction/txout.rs clone
//@struct Transaction @ src/transaction/mod.rs clone
//@struct MatchCriteria @ src/transaction/match_criteria.rs clone default
//@include shims/strparse.rs
//@include spec/template.rs
pub use OpCodes::OP_0;
pub struct VarInt {}
impl VarInt {
//@stub VarInt::get_pushdata_opcode
}
impl ScriptTemplate {
//@fn ScriptTemplate::map_string_to_match_token
}
impl PublicKey {
//@stub PublicKey::from_bytes_impl
}
impl Signature {
//@stub Signature::from_der_impl
}
impl Script {
//@fn Script::match_impl
//@wrapper Script::matches @ src/script/script_template.rs = Script::match_impl
//@fn Script::test_impl
//@fn Script::is_match
}
impl TxIn {
    #[verifier::external_body] pub(crate) fn get_finalised_script_impl(&self) -> (r: Result<Script, BSVErrors>)
        ensures (r is Ok) == (finalised_bits(*self) is Some), r is Ok ==> r->Ok_0.0@ == finalised_bits(*self)->Some_0 { unimplemented!() }
}
impl Transaction {
//@fn Transaction::is_matching_output
//@fn Transaction::match_output
//@fn Transaction::match_outputs
//@fn Transaction::is_matching_input
//@fn Transaction::match_input
//@fn Transaction::match_inputs
}
} // verus!
fn main() {}
