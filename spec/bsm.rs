// Bitcoin Signed Message: compact-size(len(magic)) ++ magic ++ compact-size(len(msg)) ++ msg, magic = "Bitcoin Signed Message:\n" (24 bytes)
pub open spec fn bsm_magic() -> Seq<u8> { seq![0x42u8, 0x69u8, 0x74u8, 0x63u8, 0x6fu8, 0x69u8, 0x6eu8, 0x20u8, 0x53u8, 0x69u8, 0x67u8, 0x6eu8, 0x65u8, 0x64u8, 0x20u8, 0x4du8, 0x65u8, 0x73u8, 0x73u8, 0x61u8, 0x67u8, 0x65u8, 0x3au8, 0x0au8] }
pub open spec fn bsm_magic_message(msg: Seq<u8>) -> Seq<u8> { varint(24) + bsm_magic() + varint(msg.len() as u64) + msg }
