// ---- cryptographic primitives as uninterpreted spec functions (assumed computed by the dependency crates) ----
pub uninterp spec fn spec_sha256(s: Seq<u8>) -> Seq<u8>;
pub uninterp spec fn spec_sha1(s: Seq<u8>) -> Seq<u8>;
pub uninterp spec fn spec_sha512(s: Seq<u8>) -> Seq<u8>;
pub uninterp spec fn spec_ripemd160(s: Seq<u8>) -> Seq<u8>;
pub open spec fn spec_sha256d(s: Seq<u8>) -> Seq<u8> { spec_sha256(spec_sha256(s)) }
pub open spec fn spec_hash160(s: Seq<u8>) -> Seq<u8> { spec_ripemd160(spec_sha256(s)) }
// output lengths of the hash functions (named axioms; listed in the evidence)
pub axiom fn axiom_hash_lengths(s: Seq<u8>) ensures spec_sha256(s).len() == 32, spec_sha1(s).len() == 20, spec_sha512(s).len() == 64, spec_ripemd160(s).len() == 20;
