// ---- cryptographic primitives as uninterpreted spec functions (assumed computed by the dependency crates) ----
pub uninterp spec fn spec_sha256(s: Seq<u8>) -> Seq<u8>;
pub uninterp spec fn spec_sha1(s: Seq<u8>) -> Seq<u8>;
pub uninterp spec fn spec_sha512(s: Seq<u8>) -> Seq<u8>;
pub uninterp spec fn spec_ripemd160(s: Seq<u8>) -> Seq<u8>;
pub open spec fn spec_sha256d(s: Seq<u8>) -> Seq<u8> { spec_sha256(spec_sha256(s)) }
pub open spec fn spec_hash160(s: Seq<u8>) -> Seq<u8> { spec_ripemd160(spec_sha256(s)) }
