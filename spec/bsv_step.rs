// ---- Bitcoin SV script semantics of the non-signature opcodes (written from the BSV script specification) ----
// Stacks are sequences of byte strings, TOP = LAST.  None = the opcode fails.
pub open spec fn dv(s: Seq<Vec<u8>>) -> Seq<Seq<u8>> { Seq::new(s.len(), |i: int| s[i]@) }
pub open spec fn benc(b: bool) -> Seq<u8> { if b { seq![1u8] } else { Seq::<u8>::empty() } }
pub open spec fn nenc(v: int) -> Seq<u8> { enc_scriptnum(v) }
pub open spec fn top(s: Seq<Seq<u8>>, k: int) -> Seq<u8> { s[s.len() - 1 - k] }     // k-th element from the top (0 = top)
pub open spec fn pop_n(s: Seq<Seq<u8>>, k: int) -> Seq<Seq<u8>> { s.subrange(0, s.len() - k) }
pub open spec fn small(e: Seq<u8>) -> bool { e.len() <= 4 }     // operands read with the 4-byte number reader
pub open spec fn bitmap2(a: Seq<u8>, b: Seq<u8>, which: int) -> Seq<u8> {
    Seq::new(a.len(), |i: int| if which == 0 { a[i] & b[i] } else if which == 1 { a[i] | b[i] } else { a[i] ^ b[i] })
}
pub open spec fn unary(s: Seq<Seq<u8>>, a: Seq<Seq<u8>>, v: Seq<u8>) -> Option<(Seq<Seq<u8>>, Seq<Seq<u8>>)> { Some((pop_n(s, 1).push(v), a)) }
pub open spec fn binary(s: Seq<Seq<u8>>, a: Seq<Seq<u8>>, v: Seq<u8>) -> Option<(Seq<Seq<u8>>, Seq<Seq<u8>>)> { Some((pop_n(s, 2).push(v), a)) }
pub open spec fn const_num(op: OpCodes) -> Option<int> {
    match op {
        OpCodes::OP_0 => Some(0int), OpCodes::OP_1NEGATE => Some(-1int), OpCodes::OP_1 => Some(1int), OpCodes::OP_2 => Some(2int), OpCodes::OP_3 => Some(3int),
        OpCodes::OP_4 => Some(4int), OpCodes::OP_5 => Some(5int), OpCodes::OP_6 => Some(6int), OpCodes::OP_7 => Some(7int), OpCodes::OP_8 => Some(8int),
        OpCodes::OP_9 => Some(9int), OpCodes::OP_10 => Some(10int), OpCodes::OP_11 => Some(11int), OpCodes::OP_12 => Some(12int), OpCodes::OP_13 => Some(13int),
        OpCodes::OP_14 => Some(14int), OpCodes::OP_15 => Some(15int), OpCodes::OP_16 => Some(16int), _ => None,
    }
}
pub open spec fn bsv_step(op: OpCodes, s: Seq<Seq<u8>>, a: Seq<Seq<u8>>) -> Option<(Seq<Seq<u8>>, Seq<Seq<u8>>)> {
    let n = s.len() as int;
    if const_num(op) is Some { Some((s.push(nenc(const_num(op)->Some_0)), a)) } else {
    match op {
        OpCodes::OP_NOP | OpCodes::OP_NOP1 | OpCodes::OP_NOP4 | OpCodes::OP_NOP5 | OpCodes::OP_NOP6 | OpCodes::OP_NOP7 | OpCodes::OP_NOP8 | OpCodes::OP_NOP9 | OpCodes::OP_NOP10 => Some((s, a)),
        OpCodes::OP_VERIFY => if n < 1 || !truthy(top(s, 0)) { None } else { Some((pop_n(s, 1), a)) },
        OpCodes::OP_TOALTSTACK => if n < 1 { None } else { Some((pop_n(s, 1), a.push(top(s, 0)))) },
        OpCodes::OP_FROMALTSTACK => if a.len() < 1 { None } else { Some((s.push(a.last()), a.drop_last())) },
        OpCodes::OP_IFDUP => if n < 1 { None } else if truthy(top(s, 0)) { Some((s.push(top(s, 0)), a)) } else { Some((s, a)) },
        OpCodes::OP_DEPTH => if n > 0x7fffffff { None } else { Some((s.push(nenc(n)), a)) },
        OpCodes::OP_DROP => if n < 1 { None } else { Some((pop_n(s, 1), a)) },
        OpCodes::OP_DUP => if n < 1 { None } else { Some((s.push(top(s, 0)), a)) },
        OpCodes::OP_NIP => if n < 2 { None } else { Some((pop_n(s, 2).push(top(s, 0)), a)) },
        OpCodes::OP_OVER => if n < 2 { None } else { Some((s.push(top(s, 1)), a)) },
        OpCodes::OP_PICK => if n < 1 || !small(top(s, 0)) { None } else { let k = scriptnum(top(s, 0)); let t = pop_n(s, 1);
            if k < 0 || k >= t.len() { None } else { Some((t.push(top(t, k)), a)) } },
        OpCodes::OP_ROLL => if n < 1 || !small(top(s, 0)) { None } else { let k = scriptnum(top(s, 0)); let t = pop_n(s, 1);
            if k < 0 || k >= t.len() { None } else { Some((t.remove(t.len() - 1 - k).push(top(t, k)), a)) } },
        OpCodes::OP_ROT => if n < 3 { None } else { Some((pop_n(s, 3).push(top(s, 1)).push(top(s, 0)).push(top(s, 2)), a)) },
        OpCodes::OP_SWAP => if n < 2 { None } else { Some((pop_n(s, 2).push(top(s, 0)).push(top(s, 1)), a)) },
        OpCodes::OP_TUCK => if n < 2 { None } else { Some((pop_n(s, 2).push(top(s, 0)).push(top(s, 1)).push(top(s, 0)), a)) },
        OpCodes::OP_2DROP => if n < 2 { None } else { Some((pop_n(s, 2), a)) },
        OpCodes::OP_2DUP => if n < 2 { None } else { Some((s.push(top(s, 1)).push(top(s, 0)), a)) },
        OpCodes::OP_3DUP => if n < 3 { None } else { Some((s.push(top(s, 2)).push(top(s, 1)).push(top(s, 0)), a)) },
        OpCodes::OP_2OVER => if n < 4 { None } else { Some((s.push(top(s, 3)).push(top(s, 2)), a)) },
        OpCodes::OP_2ROT => if n < 6 { None } else { Some((pop_n(s, 6).push(top(s, 3)).push(top(s, 2)).push(top(s, 1)).push(top(s, 0)).push(top(s, 5)).push(top(s, 4)), a)) },
        OpCodes::OP_2SWAP => if n < 4 { None } else { Some((pop_n(s, 4).push(top(s, 1)).push(top(s, 0)).push(top(s, 3)).push(top(s, 2)), a)) },
        OpCodes::OP_CAT => if n < 2 { None } else { binary(s, a, top(s, 1) + top(s, 0)) },
        OpCodes::OP_SPLIT => if n < 2 || !small(top(s, 0)) { None } else { let k = scriptnum(top(s, 0)); let x = top(s, 1);
            if k < 0 || k > x.len() { None } else { Some((pop_n(s, 2).push(x.subrange(0, k)).push(x.subrange(k, x.len() as int)), a)) } },
        OpCodes::OP_SIZE => if n < 1 || top(s, 0).len() > 0x7fffffff { None } else { Some((s.push(nenc(top(s, 0).len() as int)), a)) },
        OpCodes::OP_INVERT => if n < 1 { None } else { unary(s, a, Seq::new(top(s, 0).len(), |i: int| !top(s, 0)[i])) },
        OpCodes::OP_AND => if n < 2 || top(s, 0).len() != top(s, 1).len() { None } else { binary(s, a, bitmap2(top(s, 1), top(s, 0), 0)) },
        OpCodes::OP_OR => if n < 2 || top(s, 0).len() != top(s, 1).len() { None } else { binary(s, a, bitmap2(top(s, 1), top(s, 0), 1)) },
        OpCodes::OP_XOR => if n < 2 || top(s, 0).len() != top(s, 1).len() { None } else { binary(s, a, bitmap2(top(s, 1), top(s, 0), 2)) },
        OpCodes::OP_EQUAL => if n < 2 { None } else { binary(s, a, benc(top(s, 0) == top(s, 1))) },
        OpCodes::OP_EQUALVERIFY => if n < 2 || top(s, 0) != top(s, 1) { None } else { Some((pop_n(s, 2), a)) },
        OpCodes::OP_1ADD => if n < 1 { None } else { unary(s, a, nenc(scriptnum(top(s, 0)) + 1)) },
        OpCodes::OP_1SUB => if n < 1 { None } else { unary(s, a, nenc(scriptnum(top(s, 0)) - 1)) },
        OpCodes::OP_NEGATE => if n < 1 { None } else { unary(s, a, nenc(-scriptnum(top(s, 0)))) },
        OpCodes::OP_ABS => if n < 1 { None } else { unary(s, a, nenc(if scriptnum(top(s, 0)) < 0 { -scriptnum(top(s, 0)) } else { scriptnum(top(s, 0)) })) },
        OpCodes::OP_NOT => if n < 1 || !small(top(s, 0)) { None } else { unary(s, a, nenc(if scriptnum(top(s, 0)) == 0 { 1int } else { 0int })) },
        OpCodes::OP_0NOTEQUAL => if n < 1 || !small(top(s, 0)) { None } else { unary(s, a, nenc(if scriptnum(top(s, 0)) == 0 { 0int } else { 1int })) },
        OpCodes::OP_ADD => if n < 2 { None } else { binary(s, a, nenc(scriptnum(top(s, 1)) + scriptnum(top(s, 0)))) },
        OpCodes::OP_SUB => if n < 2 { None } else { binary(s, a, nenc(scriptnum(top(s, 1)) - scriptnum(top(s, 0)))) },
        OpCodes::OP_MUL => if n < 2 { None } else { binary(s, a, nenc(scriptnum(top(s, 0)) * scriptnum(top(s, 1)))) },
        OpCodes::OP_DIV => if n < 2 || scriptnum(top(s, 0)) == 0 { None } else { binary(s, a, nenc(tdiv(scriptnum(top(s, 1)), scriptnum(top(s, 0))))) },
        OpCodes::OP_MOD => if n < 2 || scriptnum(top(s, 0)) == 0 { None } else { binary(s, a, nenc(trem(scriptnum(top(s, 1)), scriptnum(top(s, 0))))) },
        OpCodes::OP_BOOLAND => if n < 2 { None } else { binary(s, a, benc(truthy(top(s, 1)) && truthy(top(s, 0)))) },
        OpCodes::OP_BOOLOR => if n < 2 { None } else { binary(s, a, benc(truthy(top(s, 1)) || truthy(top(s, 0)))) },
        OpCodes::OP_NUMEQUAL => if n < 2 { None } else { binary(s, a, benc(scriptnum(top(s, 1)) == scriptnum(top(s, 0)))) },
        OpCodes::OP_NUMEQUALVERIFY => if n < 2 || scriptnum(top(s, 1)) != scriptnum(top(s, 0)) { None } else { Some((pop_n(s, 2), a)) },
        OpCodes::OP_NUMNOTEQUAL => if n < 2 { None } else { binary(s, a, benc(scriptnum(top(s, 1)) != scriptnum(top(s, 0)))) },
        OpCodes::OP_LESSTHAN => if n < 2 { None } else { binary(s, a, benc(scriptnum(top(s, 1)) < scriptnum(top(s, 0)))) },
        OpCodes::OP_GREATERTHAN => if n < 2 { None } else { binary(s, a, benc(scriptnum(top(s, 1)) > scriptnum(top(s, 0)))) },
        OpCodes::OP_LESSTHANOREQUAL => if n < 2 { None } else { binary(s, a, benc(scriptnum(top(s, 1)) <= scriptnum(top(s, 0)))) },
        OpCodes::OP_GREATERTHANOREQUAL => if n < 2 { None } else { binary(s, a, benc(scriptnum(top(s, 1)) >= scriptnum(top(s, 0)))) },
        OpCodes::OP_MIN => if n < 2 { None } else { binary(s, a, nenc(if scriptnum(top(s, 1)) < scriptnum(top(s, 0)) { scriptnum(top(s, 1)) } else { scriptnum(top(s, 0)) })) },
        OpCodes::OP_MAX => if n < 2 { None } else { binary(s, a, nenc(if scriptnum(top(s, 1)) > scriptnum(top(s, 0)) { scriptnum(top(s, 1)) } else { scriptnum(top(s, 0)) })) },
        OpCodes::OP_WITHIN => if n < 3 { None } else { Some((pop_n(s, 3).push(benc(scriptnum(top(s, 1)) <= scriptnum(top(s, 2)) && scriptnum(top(s, 2)) < scriptnum(top(s, 0)))), a)) },
        OpCodes::OP_BIN2NUM => if n < 1 { None } else { unary(s, a, nenc(scriptnum(top(s, 0)))) },
        OpCodes::OP_RIPEMD160 => if n < 1 { None } else { unary(s, a, spec_ripemd160(top(s, 0))) },
        OpCodes::OP_SHA1 => if n < 1 { None } else { unary(s, a, spec_sha1(top(s, 0))) },
        OpCodes::OP_SHA256 => if n < 1 { None } else { unary(s, a, spec_sha256(top(s, 0))) },
        OpCodes::OP_HASH160 => if n < 1 { None } else { unary(s, a, spec_hash160(top(s, 0))) },
        OpCodes::OP_HASH256 => if n < 1 { None } else { unary(s, a, spec_sha256d(top(s, 0))) },
        _ => None,
    } }
}
// the implementation's answer r / final state agrees with the specification for opcode op
pub open spec fn sem_ok(op: OpCodes, os: State, r_ok: bool, fs: State) -> bool {
    match bsv_step(op, dv(os.stack@), dv(os.alt_stack@)) {
        Some((s2, a2)) => r_ok && dv(fs.stack@) =~~= s2 && dv(fs.alt_stack@) =~~= a2,
        None => !r_ok,
    }
}
