// The byte value of every consensus opcode, typed in from the Bitcoin SV opcode table (NOT derived from /repo):
// the enum in src/script/op_codes.rs must agree with it, otherwise parsing / serialising / executing would use other bytes
// than an independent implementation. (The template pseudo-opcodes 0xfb..0xff are library-specific and not listed.)
pub proof fn opcodes_have_their_consensus_byte_values()
    ensures
        OpCodes::OP_0 as u8 == 0x00u8 && OpCodes::OP_PUSHDATA1 as u8 == 0x4cu8 && OpCodes::OP_PUSHDATA2 as u8 == 0x4du8 && OpCodes::OP_PUSHDATA4 as u8 == 0x4eu8 && OpCodes::OP_1NEGATE as u8 == 0x4fu8 &&
        OpCodes::OP_RESERVED as u8 == 0x50u8 && OpCodes::OP_1 as u8 == 0x51u8 && OpCodes::OP_2 as u8 == 0x52u8 && OpCodes::OP_3 as u8 == 0x53u8 && OpCodes::OP_4 as u8 == 0x54u8 &&
        OpCodes::OP_5 as u8 == 0x55u8 && OpCodes::OP_6 as u8 == 0x56u8 && OpCodes::OP_7 as u8 == 0x57u8 && OpCodes::OP_8 as u8 == 0x58u8 && OpCodes::OP_9 as u8 == 0x59u8 &&
        OpCodes::OP_10 as u8 == 0x5au8 && OpCodes::OP_11 as u8 == 0x5bu8 && OpCodes::OP_12 as u8 == 0x5cu8 && OpCodes::OP_13 as u8 == 0x5du8 && OpCodes::OP_14 as u8 == 0x5eu8 &&
        OpCodes::OP_15 as u8 == 0x5fu8 && OpCodes::OP_16 as u8 == 0x60u8 && OpCodes::OP_NOP as u8 == 0x61u8 && OpCodes::OP_VER as u8 == 0x62u8 && OpCodes::OP_IF as u8 == 0x63u8 &&
        OpCodes::OP_NOTIF as u8 == 0x64u8 && OpCodes::OP_VERIF as u8 == 0x65u8 && OpCodes::OP_VERNOTIF as u8 == 0x66u8 && OpCodes::OP_ELSE as u8 == 0x67u8 && OpCodes::OP_ENDIF as u8 == 0x68u8 &&
        OpCodes::OP_VERIFY as u8 == 0x69u8 && OpCodes::OP_RETURN as u8 == 0x6au8 && OpCodes::OP_TOALTSTACK as u8 == 0x6bu8 && OpCodes::OP_FROMALTSTACK as u8 == 0x6cu8 && OpCodes::OP_2DROP as u8 == 0x6du8 &&
        OpCodes::OP_2DUP as u8 == 0x6eu8 && OpCodes::OP_3DUP as u8 == 0x6fu8 && OpCodes::OP_2OVER as u8 == 0x70u8 && OpCodes::OP_2ROT as u8 == 0x71u8 && OpCodes::OP_2SWAP as u8 == 0x72u8 &&
        OpCodes::OP_IFDUP as u8 == 0x73u8 && OpCodes::OP_DEPTH as u8 == 0x74u8 && OpCodes::OP_DROP as u8 == 0x75u8 && OpCodes::OP_DUP as u8 == 0x76u8 && OpCodes::OP_NIP as u8 == 0x77u8 &&
        OpCodes::OP_OVER as u8 == 0x78u8 && OpCodes::OP_PICK as u8 == 0x79u8 && OpCodes::OP_ROLL as u8 == 0x7au8 && OpCodes::OP_ROT as u8 == 0x7bu8 && OpCodes::OP_SWAP as u8 == 0x7cu8 &&
        OpCodes::OP_TUCK as u8 == 0x7du8 && OpCodes::OP_CAT as u8 == 0x7eu8 && OpCodes::OP_SPLIT as u8 == 0x7fu8 && OpCodes::OP_NUM2BIN as u8 == 0x80u8 && OpCodes::OP_BIN2NUM as u8 == 0x81u8 &&
        OpCodes::OP_SIZE as u8 == 0x82u8 && OpCodes::OP_INVERT as u8 == 0x83u8 && OpCodes::OP_AND as u8 == 0x84u8 && OpCodes::OP_OR as u8 == 0x85u8 && OpCodes::OP_XOR as u8 == 0x86u8 &&
        OpCodes::OP_EQUAL as u8 == 0x87u8 && OpCodes::OP_EQUALVERIFY as u8 == 0x88u8 && OpCodes::OP_RESERVED1 as u8 == 0x89u8 && OpCodes::OP_RESERVED2 as u8 == 0x8au8 && OpCodes::OP_1ADD as u8 == 0x8bu8 &&
        OpCodes::OP_1SUB as u8 == 0x8cu8 && OpCodes::OP_2MUL as u8 == 0x8du8 && OpCodes::OP_2DIV as u8 == 0x8eu8 && OpCodes::OP_NEGATE as u8 == 0x8fu8 && OpCodes::OP_ABS as u8 == 0x90u8 &&
        OpCodes::OP_NOT as u8 == 0x91u8 && OpCodes::OP_0NOTEQUAL as u8 == 0x92u8 && OpCodes::OP_ADD as u8 == 0x93u8 && OpCodes::OP_SUB as u8 == 0x94u8 && OpCodes::OP_MUL as u8 == 0x95u8 &&
        OpCodes::OP_DIV as u8 == 0x96u8 && OpCodes::OP_MOD as u8 == 0x97u8 && OpCodes::OP_LSHIFT as u8 == 0x98u8 && OpCodes::OP_RSHIFT as u8 == 0x99u8 && OpCodes::OP_BOOLAND as u8 == 0x9au8 &&
        OpCodes::OP_BOOLOR as u8 == 0x9bu8 && OpCodes::OP_NUMEQUAL as u8 == 0x9cu8 && OpCodes::OP_NUMEQUALVERIFY as u8 == 0x9du8 && OpCodes::OP_NUMNOTEQUAL as u8 == 0x9eu8 && OpCodes::OP_LESSTHAN as u8 == 0x9fu8 &&
        OpCodes::OP_GREATERTHAN as u8 == 0xa0u8 && OpCodes::OP_LESSTHANOREQUAL as u8 == 0xa1u8 && OpCodes::OP_GREATERTHANOREQUAL as u8 == 0xa2u8 && OpCodes::OP_MIN as u8 == 0xa3u8 && OpCodes::OP_MAX as u8 == 0xa4u8 &&
        OpCodes::OP_WITHIN as u8 == 0xa5u8 && OpCodes::OP_RIPEMD160 as u8 == 0xa6u8 && OpCodes::OP_SHA1 as u8 == 0xa7u8 && OpCodes::OP_SHA256 as u8 == 0xa8u8 && OpCodes::OP_HASH160 as u8 == 0xa9u8 &&
        OpCodes::OP_HASH256 as u8 == 0xaau8 && OpCodes::OP_CODESEPARATOR as u8 == 0xabu8 && OpCodes::OP_CHECKSIG as u8 == 0xacu8 && OpCodes::OP_CHECKSIGVERIFY as u8 == 0xadu8 && OpCodes::OP_CHECKMULTISIG as u8 == 0xaeu8 &&
        OpCodes::OP_CHECKMULTISIGVERIFY as u8 == 0xafu8 && OpCodes::OP_NOP1 as u8 == 0xb0u8 && OpCodes::OP_CHECKLOCKTIMEVERIFY as u8 == 0xb1u8 && OpCodes::OP_CHECKSEQUENCEVERIFY as u8 == 0xb2u8 && OpCodes::OP_NOP4 as u8 == 0xb3u8 &&
        OpCodes::OP_NOP5 as u8 == 0xb4u8 && OpCodes::OP_NOP6 as u8 == 0xb5u8 && OpCodes::OP_NOP7 as u8 == 0xb6u8 && OpCodes::OP_NOP8 as u8 == 0xb7u8 && OpCodes::OP_NOP9 as u8 == 0xb8u8 &&
        OpCodes::OP_NOP10 as u8 == 0xb9u8, // [opcode_byte_values_match_the_bitcoin_sv_table]
{}
