// ---- independent strict tokenizer spec (written from the Bitcoin script wire format) ----
pub ghost enum Tok { Op(u8), Push(Seq<u8>), PushData(u8, Seq<u8>), Raw(Seq<u8>) }

pub open spec fn ser_tok(t: Tok) -> Seq<u8> {
    match t {
        Tok::Op(b) => seq![b],
        Tok::Push(d) => seq![d.len() as u8] + d,
        Tok::PushData(c, d) => seq![c] + (if c == 76 { seq![d.len() as u8] } else if c == 77 { le16(d.len() as u16) } else { le32(d.len() as u32) }) + d,
        Tok::Raw(d) => d,
    }
}
pub open spec fn ser_toks(s: Seq<Tok>) -> Seq<u8> decreases s.len() {
    if s.len() == 0 { seq![] } else { ser_toks(s.drop_last()) + ser_tok(s.last()) }
}
pub open spec fn cons_opt(t: Tok, r: Option<Seq<Tok>>) -> Option<Seq<Tok>> {
    match r { Some(x) => Some(seq![t] + x), None => None }
}
// First token of s and the number of bytes it occupies.  A push that declares more data than remains => None.
// Unknown opcode byte => None.
pub open spec fn tok_head(s: Seq<u8>) -> Option<(Tok, int)> {
    if s.len() == 0 { None } else {
        let b = s[0];
        if b != 0 && b < 76 {
            if s.len() < 1 + b as int { None } else { Some((Tok::Push(s.subrange(1, 1 + b as int)), 1 + b as int)) }
        } else if b == 76 {
            if s.len() < 2 { None } else { let n = s[1] as int;
                if s.len() < 2 + n { None } else { Some((Tok::PushData(76, s.subrange(2, 2 + n)), 2 + n)) } }
        } else if b == 77 {
            if s.len() < 3 { None } else { let n = un_le16(s.subrange(1, 3)) as int;
                if s.len() < 3 + n { None } else { Some((Tok::PushData(77, s.subrange(3, 3 + n)), 3 + n)) } }
        } else if b == 78 {
            if s.len() < 5 { None } else { let n = un_le32(s.subrange(1, 5)) as int;
                if s.len() < 5 + n { None } else { Some((Tok::PushData(78, s.subrange(5, 5 + n)), 5 + n)) } }
        } else if OpCodes::valid_disc_from_u8(b as int) { Some((Tok::Op(b), 1int)) } else { None }
    }
}
#[verifier::opaque]
pub open spec fn tok(s: Seq<u8>) -> Option<Seq<Tok>> decreases s.len() {
    if s.len() == 0 { Some(Seq::<Tok>::empty()) } else {
        match tok_head(s) {
            None => None,
            Some((t, k)) => if 1 <= k <= s.len() { cons_opt(t, tok(s.skip(k))) } else { None },
        }
    }
}

// flattening of the parsed (nested) representation back to tokens
pub open spec fn flat(b: ScriptBit) -> Seq<Tok> decreases b {
    match b {
        ScriptBit::OpCode(code) => seq![Tok::Op(code as u8)],
        ScriptBit::Push(bytes) => seq![Tok::Push(bytes@)],
        ScriptBit::PushData(code, bytes) => seq![Tok::PushData(code as u8, bytes@)],
        ScriptBit::If { code, pass, fail } => seq![Tok::Op(code as u8)] + flats(pass@) + (match fail {
            Some(f) => seq![Tok::Op(103u8)] + flats(f@),
            None => Seq::<Tok>::empty(),
        }) + seq![Tok::Op(104u8)],
        ScriptBit::Coinbase(bytes) => seq![Tok::Raw(bytes@)],
    }
}
pub open spec fn flats(s: Seq<ScriptBit>) -> Seq<Tok> decreases s {
    if s.len() == 0 { Seq::<Tok>::empty() } else { flats(s.drop_last()) + flat(s.last()) }
}
pub open spec fn is_if_class(c: OpCodes) -> bool { c is OP_IF || c is OP_NOTIF || c is OP_VERIF || c is OP_VERNOTIF }
// no conditional opcode survives as a bare opcode at any nesting level: every IF-class token of the input is the
// head of a closed If block (so an unterminated block cannot have been accepted)
pub open spec fn no_bare_if(b: ScriptBit) -> bool decreases b {
    match b {
        ScriptBit::OpCode(code) => !is_if_class(code),
        ScriptBit::If { code, pass, fail } => no_bare_ifs(pass@) && (match fail { Some(f) => no_bare_ifs(f@), None => true }),
        _ => true,
    }
}
pub open spec fn no_bare_ifs(s: Seq<ScriptBit>) -> bool decreases s {
    if s.len() == 0 { true } else { no_bare_ifs(s.drop_last()) && no_bare_if(s.last()) }
}

// ---- lemmas ----
pub proof fn lemma_ser_toks_append(a: Seq<Tok>, b: Seq<Tok>)
    ensures ser_toks(a + b) == ser_toks(a) + ser_toks(b)
    decreases b.len()
{
    if b.len() == 0 { assert(a + b == a); }
    else {
        assert((a + b).drop_last() == a + b.drop_last());
        assert((a + b).last() == b.last());
        lemma_ser_toks_append(a, b.drop_last());
    }
}
pub proof fn lemma_ser_toks_one(t: Tok) ensures ser_toks(seq![t]) == ser_tok(t) {
    assert(seq![t].drop_last() == Seq::<Tok>::empty());
    reveal_with_fuel(ser_toks, 2);
}
pub proof fn lemma_flats_append(a: Seq<ScriptBit>, b: Seq<ScriptBit>)
    ensures flats(a + b) == flats(a) + flats(b)
    decreases b.len()
{
    if b.len() == 0 { assert(a + b == a); }
    else {
        assert((a + b).drop_last() == a + b.drop_last());
        assert((a + b).last() == b.last());
        lemma_flats_append(a, b.drop_last());
    }
}
pub proof fn lemma_flats_push(a: Seq<ScriptBit>, x: ScriptBit)
    ensures flats(a.push(x)) == flats(a) + flat(x)
{
    assert(a.push(x).drop_last() == a);
}
// L1: serialising the nested form == serialising its flattening
pub proof fn lemma_ser_bit_flat(b: ScriptBit)
    ensures ser_bit(b) == ser_toks(flat(b))
    decreases b
{
    match b {
        ScriptBit::OpCode(code) => { lemma_ser_toks_one(Tok::Op(code as u8)); }
        ScriptBit::Push(bytes) => { lemma_ser_toks_one(Tok::Push(bytes@)); }
        ScriptBit::PushData(code, bytes) => { lemma_ser_toks_one(Tok::PushData(code as u8, bytes@)); }
        ScriptBit::Coinbase(bytes) => { lemma_ser_toks_one(Tok::Raw(bytes@)); }
        ScriptBit::If { code, pass, fail } => {
            lemma_ser_bits_flats(pass@);
            let h = seq![Tok::Op(code as u8)];
            let e = seq![Tok::Op(104u8)];
            lemma_ser_toks_one(Tok::Op(code as u8));
            lemma_ser_toks_one(Tok::Op(104u8));
            match fail {
                Some(f) => {
                    lemma_ser_bits_flats(f@);
                    let m = seq![Tok::Op(103u8)];
                    lemma_ser_toks_one(Tok::Op(103u8));
                    lemma_ser_toks_append(h, flats(pass@));
                    lemma_ser_toks_append(m, flats(f@));
                    lemma_ser_toks_append(h + flats(pass@), m + flats(f@));
                    lemma_ser_toks_append(h + flats(pass@) + (m + flats(f@)), e);
                }
                None => {
                    lemma_ser_toks_append(h, flats(pass@));
                    assert(h + flats(pass@) + Seq::<Tok>::empty() == h + flats(pass@));
                    lemma_ser_toks_append(h + flats(pass@), e);
                }
            }
        }
    }
}
pub proof fn lemma_ser_bits_flats(s: Seq<ScriptBit>)
    ensures ser_bits(s) == ser_toks(flats(s))
    decreases s
{
    if s.len() == 0 { } else {
        lemma_ser_bits_flats(s.drop_last());
        lemma_ser_bit_flat(s.last());
        lemma_ser_toks_append(flats(s.drop_last()), flat(s.last()));
    }
}
pub proof fn lemma_le16_roundtrip(a: u8, b: u8)
    ensures le16((a as u16) | ((b as u16) << 8)) == seq![a, b]
{
    let x = (a as u16) | ((b as u16) << 8);
    assert(x as u8 == a && (x >> 8) as u8 == b) by (bit_vector) requires x == (a as u16) | ((b as u16) << 8);
}
pub proof fn lemma_le32_roundtrip(a: u8, b: u8, c: u8, d: u8)
    ensures le32((a as u32) | ((b as u32) << 8) | ((c as u32) << 16) | ((d as u32) << 24)) == seq![a, b, c, d]
{
    let x = (a as u32) | ((b as u32) << 8) | ((c as u32) << 16) | ((d as u32) << 24);
    assert(x as u8 == a && (x >> 8) as u8 == b && (x >> 16) as u8 == c && (x >> 24) as u8 == d) by (bit_vector)
        requires x == (a as u32) | ((b as u32) << 8) | ((c as u32) << 16) | ((d as u32) << 24);
}
pub proof fn lemma_tok_head(s: Seq<u8>)
    ensures tok_head(s) is Some ==> ({ let (t, k) = tok_head(s)->Some_0; 1 <= k <= s.len() && ser_tok(t) == s.take(k) })
{
    if tok_head(s) is Some {
        let (t, k) = tok_head(s)->Some_0;
        let b = s[0];
        if b == 77 { lemma_le16_roundtrip(s[1], s[2]); assert(s.subrange(1, 3)[0] == s[1] && s.subrange(1, 3)[1] == s[2]); }
        if b == 78 { lemma_le32_roundtrip(s[1], s[2], s[3], s[4]);
            assert(s.subrange(1, 5)[0] == s[1] && s.subrange(1, 5)[1] == s[2] && s.subrange(1, 5)[2] == s[3] && s.subrange(1, 5)[3] == s[4]); }
        assert(ser_tok(t) =~= s.take(k));
    }
}
// L2: whatever the strict tokenizer accepts re-serialises to exactly the input
pub proof fn lemma_tok_roundtrip(s: Seq<u8>)
    ensures tok(s) is Some ==> ser_toks(tok(s)->Some_0) == s
    decreases s.len()
{
    reveal(tok);
    if s.len() == 0 { } else if tok(s) is Some {
        let (t, k) = tok_head(s)->Some_0;
        lemma_tok_head(s);
        let restt = tok(s.skip(k))->Some_0;
        lemma_tok_roundtrip(s.skip(k));
        lemma_ser_toks_append(seq![t], restt);
        lemma_ser_toks_one(t);
        assert(s.take(k) + s.skip(k) == s);
    }
}
pub open spec fn prepend_opt(a: Seq<Tok>, r: Option<Seq<Tok>>) -> Option<Seq<Tok>> {
    match r { Some(x) => Some(a + x), None => None }
}
// the tokenizer's flat output: no If nodes yet
pub open spec fn flat_input(s: Seq<ScriptBit>) -> bool { forall|i: int| 0 <= i < s.len() ==> !(#[trigger] s[i] is If) }
pub proof fn lemma_prepend_cons(a: Seq<Tok>, t: Tok, r: Option<Seq<Tok>>)
    ensures prepend_opt(a + seq![t], r) == prepend_opt(a, cons_opt(t, r))
{
    if let Some(x) = r { assert((a + seq![t]) + x == a + (seq![t] + x)); }
}
// one tokenizer step, as used by the parser loop: if the bytes at p start with token t of k bytes, the
// accumulated prefix grows by t and the cursor moves by k
pub proof fn lemma_tok_step(bytes: Seq<u8>, p: int, fa: Seq<Tok>, t: Tok, k: int)
    requires 0 <= p < bytes.len(), tok_head(bytes.skip(p)) == Some((t, k)), tok(bytes) == prepend_opt(fa, tok(bytes.skip(p)))
    ensures 1 <= k, p + k <= bytes.len(), tok(bytes) == prepend_opt(fa + seq![t], tok(bytes.skip(p + k)))
{
    reveal(tok);
    let rb = bytes.skip(p);
    lemma_tok_head(rb);
    assert(rb.skip(k) == bytes.skip(p + k));
    assert(tok(rb) == cons_opt(t, tok(rb.skip(k))));
    lemma_prepend_cons(fa, t, tok(rb.skip(k)));
}
pub proof fn lemma_tok_end(bytes: Seq<u8>, fa: Seq<Tok>)
    requires tok(bytes) == prepend_opt(fa, tok(bytes.skip(bytes.len() as int)))
    ensures tok(bytes) == Some(fa)
{
    reveal(tok);
    assert(fa + Seq::<Tok>::empty() == fa);
}
pub proof fn lemma_tok_start(bytes: Seq<u8>)
    ensures tok(bytes) == prepend_opt(Seq::<Tok>::empty(), tok(bytes.skip(0)))
{
    assert(bytes.skip(0) == bytes);
    if let Some(x) = tok(bytes) { assert(Seq::<Tok>::empty() + x == x); }
}
pub proof fn lemma_head_push(rb: Seq<u8>, n: int, data: Seq<u8>)
    requires rb.len() >= 1 + n, 1 <= n < 76, rb[0] == n, data == rb.skip(1).take(n)
    ensures tok_head(rb) == Some((Tok::Push(data), 1 + n))
{ assert(rb.skip(1).take(n) == rb.subrange(1, 1 + n)); }
pub proof fn lemma_head_pushdata1(rb: Seq<u8>, n: int, data: Seq<u8>)
    requires rb.len() >= 2 + n, rb[0] == 76, rb.skip(1)[0] == n, data == rb.skip(1).skip(1).take(n)
    ensures tok_head(rb) == Some((Tok::PushData(76, data), 2 + n))
{ assert(rb.skip(1).skip(1).take(n) == rb.subrange(2, 2 + n)); }
pub proof fn lemma_head_pushdata2(rb: Seq<u8>, n: int, data: Seq<u8>)
    requires rb.len() >= 3 + n, rb[0] == 77, rb.skip(1).len() >= 2, un_le16(rb.skip(1).take(2)) == n, data == rb.skip(1).skip(2).take(n)
    ensures tok_head(rb) == Some((Tok::PushData(77, data), 3 + n))
{ assert(rb.skip(1).skip(2).take(n) == rb.subrange(3, 3 + n)); assert(rb.skip(1).take(2) == rb.subrange(1, 3)); }
pub proof fn lemma_head_pushdata4(rb: Seq<u8>, n: int, data: Seq<u8>)
    requires rb.len() >= 5 + n, rb[0] == 78, rb.skip(1).len() >= 4, un_le32(rb.skip(1).take(4)) == n, data == rb.skip(1).skip(4).take(n)
    ensures tok_head(rb) == Some((Tok::PushData(78, data), 5 + n))
{ assert(rb.skip(1).skip(4).take(n) == rb.subrange(5, 5 + n)); assert(rb.skip(1).take(4) == rb.subrange(1, 5)); }
// the minimal push form for data of length 1 ..= 2^32-1 (written from the script specification)
pub open spec fn minimal_push(d: Seq<u8>) -> Tok {
    if d.len() <= 75 { Tok::Push(d) } else if d.len() <= 0xff { Tok::PushData(76, d) } else if d.len() <= 0xffff { Tok::PushData(77, d) } else { Tok::PushData(78, d) }
}
pub proof fn lemma_un_le16(x: u16) ensures un_le16(le16(x)) == x {
    assert(((x as u8) as u16) | ((((x >> 8) as u8) as u16) << 8) == x) by (bit_vector);
}
pub proof fn lemma_un_le32(x: u32) ensures un_le32(le32(x)) == x {
    assert(((x as u8) as u32) | ((((x >> 8) as u8) as u32) << 8) | ((((x >> 16) as u8) as u32) << 16) | ((((x >> 24) as u8) as u32) << 24) == x) by (bit_vector);
}
pub proof fn lemma_minimal_push_parses(d: Seq<u8>, enc: Seq<u8>)
    requires 1 <= d.len() <= 0xffffffff,
        enc == (if d.len() <= 0x4b { seq![d.len() as u8] } else if d.len() <= 0xff { seq![76u8, d.len() as u8] }
                else if d.len() <= 0xffff { seq![77u8] + le16(d.len() as u16) } else { seq![78u8] + le32(d.len() as u32) }) + d
    ensures tok(enc) == Some(seq![minimal_push(d)])
{
    reveal(tok);
    let n = d.len() as int;
    let k = enc.len() as int;
    if n <= 0x4b { assert(enc.subrange(1, 1 + n) == d); }
    else if n <= 0xff { assert(enc.subrange(2, 2 + n) == d); }
    else if n <= 0xffff { lemma_un_le16(n as u16); assert(enc.subrange(1, 3) == le16(n as u16)); assert(enc.subrange(3, 3 + n) == d); }
    else { lemma_un_le32(n as u32); assert(enc.subrange(1, 5) == le32(n as u32)); assert(enc.subrange(5, 5 + n) == d); }
    assert(tok_head(enc) == Some((minimal_push(d), k)));
    assert(enc.skip(k).len() == 0);
    assert(tok(enc.skip(k)) == Some(Seq::<Tok>::empty()));
    assert(seq![minimal_push(d)] + Seq::<Tok>::empty() == seq![minimal_push(d)]);
}
// flattening of a freshly built conditional node, in terms of what its two branch readers consumed
pub proof fn lemma_if_node(x: ScriptBit, a: Seq<Tok>, b: Seq<Tok>)
    requires x is If,
        flats(x->pass@) + seq![Tok::Op(if x->fail is None { 104u8 } else { 103u8 })] == a,
        x->fail is Some ==> flats(x->fail->Some_0@) + seq![Tok::Op(104u8)] == b,
        x->fail is None ==> b == Seq::<Tok>::empty(),
    ensures flat(x) == seq![Tok::Op(x->code as u8)] + a + b
{
    let h = seq![Tok::Op(x->code as u8)];
    match x->fail {
        Some(f) => {
            assert(flat(x) == h + flats(x->pass@) + (seq![Tok::Op(103u8)] + flats(f@)) + seq![Tok::Op(104u8)]);
            assert(flat(x) =~= h + a + b);
        }
        None => {
            assert(flat(x) == h + flats(x->pass@) + Seq::<Tok>::empty() + seq![Tok::Op(104u8)]);
            assert(flat(x) =~= h + a + b);
        }
    }
}

// ---- completeness for scripts without conditionals (the overwhelmingly common class): a byte string that tokenizes
// and contains no IF / NOTIF / VERIF / VERNOTIF opcode is accepted by the parser ----
pub open spec fn if_byte(b: u8) -> bool { b == 99 || b == 100 || b == 101 || b == 102 }
pub open spec fn no_if_tokens(t: Seq<Tok>) -> bool { forall|i: int| 0 <= i < t.len() ==> !(#[trigger] t[i] matches Tok::Op(b) && if_byte(b)) }
pub open spec fn no_if_class(s: Seq<ScriptBit>) -> bool { forall|i: int| 0 <= i < s.len() ==> !(#[trigger] s[i] matches ScriptBit::OpCode(c) && is_if_class(c)) }
pub proof fn lemma_tok_none(s: Seq<u8>)
    requires s.len() > 0, tok_head(s) is None
    ensures tok(s) is None
{ reveal(tok); }
// for the tokenizer's flat output every element contributes exactly one token
pub proof fn lemma_flats_of_flat_input(s: Seq<ScriptBit>)
    requires flat_input(s)
    ensures flats(s).len() == s.len(), forall|i: int| 0 <= i < s.len() ==> (#[trigger] flats(s)[i]) == flat(s[i])[0] && flat(s[i]).len() == 1
    decreases s.len()
{
    if s.len() > 0 {
        let p = s.drop_last();
        assert(flat_input(p)) by { assert forall|i: int| 0 <= i < p.len() implies !(#[trigger] p[i] is If) by { assert(p[i] == s[i]); } }
        lemma_flats_of_flat_input(p);
        assert(!(s.last() is If));
        assert(flat(s.last()).len() == 1);
        assert forall|i: int| 0 <= i < s.len() implies (#[trigger] flats(s)[i]) == flat(s[i])[0] && flat(s[i]).len() == 1 by {
            if i < p.len() { assert(p[i] == s[i]); assert(flats(s)[i] == flats(p)[i]); } else { assert(flats(s)[i] == flat(s.last())[0]); }
        }
    }
}
pub proof fn lemma_no_if_tokens_no_if_class(s: Seq<ScriptBit>)
    requires flat_input(s), no_if_tokens(flats(s))
    ensures no_if_class(s)
{
    lemma_flats_of_flat_input(s);
    assert forall|i: int| 0 <= i < s.len() implies !(#[trigger] s[i] matches ScriptBit::OpCode(c) && is_if_class(c)) by {
        if let ScriptBit::OpCode(c) = s[i] {
            if is_if_class(c) {
                assert(flats(s)[i] == Tok::Op(c as u8));
                assert(if_byte(c as u8));
            }
        }
    }
}
