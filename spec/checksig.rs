// CHECKSIG / CHECKMULTISIG specification (C15): which preimage a signature must cover, and the key-matching order
// the preimage CHECKSIG must use (for the twelve standard flags; bare FORKID / ANYONECANPAY are outside C15's quantifier): selected by the flag, subscript after the last executed code separator
// (offset counted in script elements of unlocking ++ locking), declared value of the spent output
pub open spec fn checksig_preimage_ok(tx: Transaction, i: int, f: SigHash, cs_offset: int, p: Seq<u8>) -> bool {
    0 <= i < tx.inputs@.len() && tx.inputs@[i].locking_script is Some && tx.inputs@[i].satoshis is Some && ({
        let lock = tx.inputs@[i].locking_script->Some_0.0@; let unl = tx.inputs@[i].unlocking_script.0@.len() as int;
        let off = if cs_offset >= unl { cs_offset - unl } else { 0int };
        off <= lock.len() && ({ let sub = lock.subrange(off, lock.len() as int); let v = tx.inputs@[i].satoshis->Some_0;
            (forkid6(f) ==> p == preimage_forkid(tx, i, f, ser_bits(sub), v)) && (legacy6(f) ==> p == preimage_legacy(tx, i, f, ser_bits_nocs(sub))) }) })
}

// when CHECKSIG can compute the preimage at all (standard flags): input present with locking script and declared value,
// code separator offset inside the locking script, and for SINGLE a matching output
pub open spec fn preimage_available(tx: Transaction, i: int, f: SigHash, cs_offset: int) -> bool {
    0 <= i < tx.inputs@.len() && tx.inputs@[i].locking_script is Some && tx.inputs@[i].satoshis is Some && ({
        let lock = tx.inputs@[i].locking_script->Some_0.0@; let unl = tx.inputs@[i].unlocking_script.0@.len() as int;
        let off = if cs_offset >= unl { cs_offset - unl } else { 0int };
        off <= lock.len() && !(base(f) == 3 && i >= tx.outputs@.len()) })
}
// ---- CHECKMULTISIG ----
// a signature operand CHECKMULTISIG can process without an error: non-empty, strict DER before the flag byte, a standard
// flag whose preimage is available
pub open spec fn ms_sig_ok(tx: Transaction, i: int, cs_offset: int, sg: Seq<u8>) -> bool {
    sg.len() > 0 && der_dec(sg.drop_last()) is Some
    && exists|f: SigHash| #[trigger] flag_byte(f) == sg.last() && (forkid6(f) || legacy6(f)) && preimage_available(tx, i, f, cs_offset)
}
pub open spec fn ms_operands_ok(tx: Transaction, i: int, cs_offset: int, st: Seq<Vec<u8>>) -> bool {
    let l = st.len() as int;
    l >= 1 && st[l - 1]@.len() <= 4 && ({ let n = scriptnum(st[l - 1]@);
        1 <= n && n + 2 <= l && st[l - 2 - n]@.len() <= 4 && ({ let m = scriptnum(st[l - 2 - n]@);
            1 <= m <= n && n + m + 3 <= l && ({ let keys = st.subrange(l - 1 - n, l - 1); let sigs = st.subrange(l - 2 - n - m, l - 2 - n);
                (forall|j: int| 0 <= j < n ==> sec1_valid(#[trigger] keys[j]@)) && (forall|k: int| 0 <= k < m ==> ms_sig_ok(tx, i, cs_offset, #[trigger] sigs[k]@)) }) }) })
}
pub open spec fn flag_byte(f: SigHash) -> u8 { f as u8 }
pub open spec fn flag_of(b: u8) -> SigHash { choose|f: SigHash| #[trigger] flag_byte(f) == b }
pub open spec fn std_flag(b: u8) -> bool { exists|f: SigHash| #[trigger] flag_byte(f) == b && (forkid6(f) || legacy6(f)) }
pub open spec fn std_flags(sigs: Seq<Vec<u8>>) -> bool { forall|k: int| 0 <= k < sigs.len() ==> sigs[k]@.len() > 0 && std_flag(#[trigger] sigs[k]@.last()) }
pub proof fn lemma_flag_of(f: SigHash)
    ensures flag_of(f as u8) == f
{
    let g = flag_of(f as u8);
    assert(flag_byte(f) == f as u8);
    assert(flag_byte(g) == f as u8);
}
// the one preimage a standard flag selects (same clauses as checksig_preimage_ok, as a function)
pub open spec fn std_preimage(tx: Transaction, i: int, f: SigHash, cs_offset: int) -> Seq<u8> {
    let lock = tx.inputs@[i].locking_script->Some_0.0@; let unl = tx.inputs@[i].unlocking_script.0@.len() as int;
    let off = if cs_offset >= unl { cs_offset - unl } else { 0int };
    let sub = lock.subrange(off, lock.len() as int); let v = tx.inputs@[i].satoshis->Some_0;
    if forkid6(f) { preimage_forkid(tx, i, f, ser_bits(sub), v) } else { preimage_legacy(tx, i, f, ser_bits_nocs(sub)) }
}
pub open spec fn ms_valid(tx: Transaction, i: int, cs_offset: int, sig: Seq<u8>, key: Seq<u8>) -> bool {
    ecdsa_verify(sec1_point(key), reduce_be(spec_sha256d(std_preimage(tx, i, flag_of(sig.last()), cs_offset))), der_dec(sig.drop_last())->Some_0)
}
// signatures are matched to keys in order: each signature consumes keys until one verifies it, a key is never reused
pub open spec fn ms_greedy(tx: Transaction, i: int, cs_offset: int, sigs: Seq<Vec<u8>>, keys: Seq<Vec<u8>>, si: int, ki: int) -> int
    decreases keys.len() - ki
{
    if si < 0 || ki < 0 || si >= sigs.len() || ki >= keys.len() { 0 }
    else if ms_valid(tx, i, cs_offset, sigs[si]@, keys[ki]@) { 1 + ms_greedy(tx, i, cs_offset, sigs, keys, si + 1, ki + 1) }
    else { ms_greedy(tx, i, cs_offset, sigs, keys, si, ki + 1) }
}

// ---- completeness: what the library's own signing produces satisfies CHECKSIG's acceptance condition ----
// (d: signing key, k: any nonce, p: the preimage CHECKSIG computes, f: the flag appended to the DER signature,
//  compressed: either SEC1 form of the key) - from the k256 axioms sign->verify, DER and SEC1 round trips
pub proof fn lemma_library_signature_satisfies_checksig(d: Seq<u8>, k: Seq<u8>, p: Seq<u8>, f: SigHash, compressed: bool)
    requires valid_secret(d), ecdsa_sign(d, k, reduce_be(spec_sha256d(p))) is Some,
    ensures ({ let z = reduce_be(spec_sha256d(p)); let sg = ecdsa_sign(d, k, z)->Some_0.0; let sigbytes = der_enc(sg).push(f as u8); let pk = sec1_form(pub_of(d), compressed);
        sigbytes.len() > 0 && sigbytes.last() == f as u8 && SigHash::valid_disc_from_u8(sigbytes.last() as int) && der_dec(sigbytes.drop_last()) == Some(sg)
        && sec1_valid(pk) && ecdsa_verify(sec1_point(pk), z, sg) }),
{
    let z = reduce_be(spec_sha256d(p)); let sg = ecdsa_sign(d, k, z)->Some_0.0;
    axiom_sign_valid_scalars(d, k, z); axiom_der_roundtrip(sg); axiom_pub_valid(d, compressed); axiom_sec1_forms(pub_of(d), compressed); axiom_sign_verifies(d, k, z);
    assert(der_enc(sg).push(f as u8).drop_last() == der_enc(sg));
    reveal(SigHash::valid_disc_from_u8);
}
