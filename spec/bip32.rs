// ---- BIP32 (written from the BIP32 specification) ----
pub open spec fn bip32_hardened(i: u32) -> bool { i >= 0x80000000u32 }
// HMAC-SHA512 keyed by the chain code over: 0x00 || ser256(kpar) || ser32(i) (hardened) or serP(Kpar) || ser32(i) (normal)
pub open spec fn ckd_priv_data(kpar: Seq<u8>, i: u32) -> Seq<u8> { if bip32_hardened(i) { seq![0u8] + kpar + be32(i) } else { sec1_form(pub_of(kpar), true) + be32(i) } }
pub open spec fn ckd_i(chain: Seq<u8>, data: Seq<u8>) -> Seq<u8> { spec_hmac::<Sha512>(chain, data) }
pub open spec fn fingerprint(serp: Seq<u8>) -> Seq<u8> { spec_hash160(serp).take(4) }
pub axiom fn axiom_hmac512_len(k: Seq<u8>, m: Seq<u8>) ensures spec_hmac::<Sha512>(k, m).len() == 64;
// 78-byte payload of an extended key
pub open spec fn xkey_payload(version: u32, depth: u8, fp: Seq<u8>, index: u32, chain: Seq<u8>, keydata: Seq<u8>) -> Seq<u8> {
    be32(version) + seq![depth] + fp + be32(index) + chain + keydata
}
// ---- BIP32 paths: "m/i0/i1/..." names CKD(...CKD(CKD(m, i0), i1)...); a segment is decimal digits below 2^31 with an optional hardened marker ----
pub open spec fn idx_of_segment(x: Seq<char>) -> Option<u32> {
    let digits = str_trim_end(str_trim_end(str_trim_end(x, '\''), 'h'), 'H');
    let marked = str_ends_with(x, '\'') || str_ends_with(str_lower(x), 'h');
    match str_parse_u32(digits) {
        Some(v) => if v < 0x80000000u32 { Some(if marked { (v + 0x80000000u32) as u32 } else { v }) } else { None },
        None => None,
    }
}
pub open spec fn segs_all_indices(segs: Seq<Seq<char>>) -> bool { forall|j: int| 0 <= j < segs.len() ==> idx_of_segment(#[trigger] segs[j]) is Some }
pub open spec fn segs_indices(segs: Seq<Seq<char>>) -> Seq<u32> { Seq::new(segs.len(), |j: int| idx_of_segment(segs[j])->Some_0) }
// (secret, chain code) reached from (k, chain) by private derivation along idxs, left to right
pub open spec fn ckd_priv_path(k: Seq<u8>, chain: Seq<u8>, idxs: Seq<u32>) -> (Seq<u8>, Seq<u8>)
    decreases idxs.len()
{
    if idxs.len() == 0 { (k, chain) } else {
        let p = ckd_priv_path(k, chain, idxs.drop_last());
        let i = ckd_i(p.1, ckd_priv_data(p.0, idxs.last()));
        (sc_add(p.0, i.subrange(0, 32)), i.subrange(32, 64))
    }
}
pub proof fn lemma_ckd_priv_path_step(k: Seq<u8>, chain: Seq<u8>, idxs: Seq<u32>, n: int)
    requires 0 <= n < idxs.len()
    ensures ({ let p = ckd_priv_path(k, chain, idxs.take(n)); let i = ckd_i(p.1, ckd_priv_data(p.0, idxs[n]));
        ckd_priv_path(k, chain, idxs.take(n + 1)) == (sc_add(p.0, i.subrange(0, 32)), i.subrange(32, 64)) }),
        n == 0 ==> ckd_priv_path(k, chain, idxs.take(n)) == (k, chain)
{
    assert(idxs.take(n + 1).drop_last() =~= idxs.take(n));
    assert(idxs.take(n + 1).last() == idxs[n]);
    assert(idxs.take(n + 1).len() == n + 1);
}
// (compressed SEC1 point, chain code) reached from (serP, chain) by public derivation along idxs, left to right
pub open spec fn ckd_pub_step(serp: Seq<u8>, chain: Seq<u8>, index: u32) -> (Seq<u8>, Seq<u8>) {
    let i = ckd_i(chain, serp + be32(index));
    (sec1_form(pt_add(sec1_point(serp), pub_of(i.subrange(0, 32)))->Some_0, true), i.subrange(32, 64))
}
pub open spec fn ckd_pub_path(serp: Seq<u8>, chain: Seq<u8>, idxs: Seq<u32>) -> (Seq<u8>, Seq<u8>)
    decreases idxs.len()
{
    if idxs.len() == 0 { (serp, chain) } else {
        let p = ckd_pub_path(serp, chain, idxs.drop_last());
        ckd_pub_step(p.0, p.1, idxs.last())
    }
}
pub proof fn lemma_ckd_pub_path_step(serp: Seq<u8>, chain: Seq<u8>, idxs: Seq<u32>, n: int)
    requires 0 <= n < idxs.len()
    ensures ({ let p = ckd_pub_path(serp, chain, idxs.take(n)); ckd_pub_path(serp, chain, idxs.take(n + 1)) == ckd_pub_step(p.0, p.1, idxs[n]) }),
        n == 0 ==> ckd_pub_path(serp, chain, idxs.take(n)) == (serp, chain)
{
    assert(idxs.take(n + 1).drop_last() =~= idxs.take(n));
    assert(idxs.take(n + 1).last() == idxs[n]);
    assert(idxs.take(n + 1).len() == n + 1);
}
