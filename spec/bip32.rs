// ---- BIP32 (written from the BIP32 specification) ----
pub open spec fn bip32_hardened(i: u32) -> bool { i >= 0x80000000u32 }
// HMAC-SHA512 keyed by the chain code over: 0x00 || ser256(kpar) || ser32(i) (hardened) or serP(Kpar) || ser32(i) (normal)
pub open spec fn ckd_priv_data(kpar: Seq<u8>, i: u32) -> Seq<u8> { if bip32_hardened(i) { seq![0u8] + kpar + be32(i) } else { sec1_form(pub_of(kpar), true) + be32(i) } }
pub open spec fn ckd_i(chain: Seq<u8>, data: Seq<u8>) -> Seq<u8> { spec_hmac::<Sha512>(chain, data) }
pub open spec fn fingerprint(serp: Seq<u8>) -> Seq<u8> { spec_hash160(serp).take(4) }
pub axiom fn axiom_hmac512_len(k: Seq<u8>, m: Seq<u8>) ensures spec_hmac::<Sha512>(k, m).len() == 64;
// 78-byte payload of an extended key
pub open spec fn xkey_payload(version: u32, depth: u8, fp: Seq<u8>, index: u32, chain: Seq<u8>, keydata: Seq<u8>) -> Seq<u8> {
    be32(version) + seq![depth] + fp + be32(index) + chain + keydata
}
