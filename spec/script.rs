// ---- script serialisation spec (written from the Bitcoin script wire format) ----
pub open spec fn ser_bit(b: ScriptBit) -> Seq<u8>
    decreases b
{
    match b {
        ScriptBit::OpCode(code) => seq![code as u8],
        ScriptBit::Push(bytes) => seq![bytes@.len() as u8] + bytes@,
        ScriptBit::PushData(code, bytes) => seq![code as u8] + (match code {
            OpCodes::OP_PUSHDATA1 => seq![bytes@.len() as u8],
            OpCodes::OP_PUSHDATA2 => le16(bytes@.len() as u16),
            _ => le32(bytes@.len() as u32),
        }) + bytes@,
        ScriptBit::If { code, pass, fail } => seq![code as u8] + ser_bits(pass@) + (match fail {
            Some(f) => seq![103u8] + ser_bits(f@),
            None => seq![],
        }) + seq![104u8],
        ScriptBit::Coinbase(bytes) => bytes@,
    }
}

pub open spec fn ser_bits(s: Seq<ScriptBit>) -> Seq<u8>
    decreases s
{
    if s.len() == 0 { seq![] } else { ser_bits(s.drop_last()) + ser_bit(s.last()) }
}

pub open spec fn ser_script(s: Script) -> Seq<u8> { ser_bits(s.0@) }

// serialisation of a script with every OP_CODESEPARATOR (0xab = 171) removed, at every nesting level
pub open spec fn ser_bit_nocs(b: ScriptBit) -> Seq<u8>
    decreases b
{
    match b {
        ScriptBit::OpCode(code) => if code is OP_CODESEPARATOR { Seq::<u8>::empty() } else { seq![code as u8] },
        ScriptBit::If { code, pass, fail } => seq![code as u8] + ser_bits_nocs(pass@) + (match fail {
            Some(f) => seq![103u8] + ser_bits_nocs(f@),
            None => seq![],
        }) + seq![104u8],
        _ => ser_bit(b),
    }
}
pub open spec fn ser_bits_nocs(s: Seq<ScriptBit>) -> Seq<u8>
    decreases s
{
    if s.len() == 0 { seq![] } else { ser_bits_nocs(s.drop_last()) + ser_bit_nocs(s.last()) }
}
