// ---- transaction wire format + sighash midstate specs (written from the Bitcoin wire format and
// ---- the replay-protected sighash specification, not from the code) ----
pub uninterp spec fn varint(n: u64) -> Seq<u8>;   // canonical compact size; characterised in spec/varint.rs where needed

pub open spec fn outpoint(i: TxIn) -> Seq<u8> { i.prev_tx_id@.reverse() + le32(i.vout) }
pub open spec fn ser_in(i: TxIn) -> Seq<u8> {
    outpoint(i) + varint(ser_script(i.unlocking_script).len() as u64) + ser_script(i.unlocking_script) + le32(i.sequence)
}
pub open spec fn ser_out(o: TxOut) -> Seq<u8> {
    le64(o.value) + varint(ser_script(o.script_pub_key).len() as u64) + ser_script(o.script_pub_key)
}
pub open spec fn cat_outpoints(s: Seq<TxIn>) -> Seq<u8> decreases s.len() { if s.len() == 0 { seq![] } else { cat_outpoints(s.drop_last()) + outpoint(s.last()) } }
pub open spec fn cat_sequences(s: Seq<TxIn>) -> Seq<u8> decreases s.len() { if s.len() == 0 { seq![] } else { cat_sequences(s.drop_last()) + le32(s.last().sequence) } }
pub open spec fn cat_ins(s: Seq<TxIn>) -> Seq<u8> decreases s.len() { if s.len() == 0 { seq![] } else { cat_ins(s.drop_last()) + ser_in(s.last()) } }
pub open spec fn cat_outputs(s: Seq<TxOut>) -> Seq<u8> decreases s.len() { if s.len() == 0 { seq![] } else { cat_outputs(s.drop_last()) + ser_out(s.last()) } }
pub open spec fn zeros32() -> Seq<u8> { Seq::new(32, |i: int| 0u8) }

pub open spec fn ser_tx(tx: Transaction) -> Seq<u8> {
    le32(tx.version) + varint(tx.inputs@.len() as u64) + cat_ins(tx.inputs@) + varint(tx.outputs@.len() as u64) + cat_outputs(tx.outputs@) + le32(tx.n_locktime)
}

// The three memoised hashes: each slot is empty or holds the hash of the CURRENT contents (C04 invariant).
pub open spec fn prevouts_slot_ok(tx: Transaction) -> bool { match tx.hash_cache.hash_inputs { Some(h) => h.0@ == spec_sha256d(cat_outpoints(tx.inputs@)), None => true } }
pub open spec fn sequences_slot_ok(tx: Transaction) -> bool { match tx.hash_cache.hash_sequence { Some(h) => h.0@ == spec_sha256d(cat_sequences(tx.inputs@)), None => true } }
pub open spec fn outputs_slot_ok(tx: Transaction) -> bool { match tx.hash_cache.hash_outputs { Some(h) => h.0@ == spec_sha256d(cat_outputs(tx.outputs@)), None => true } }
pub open spec fn cache_ok(tx: Transaction) -> bool { prevouts_slot_ok(tx) && sequences_slot_ok(tx) && outputs_slot_ok(tx) }
pub open spec fn cache_empty(tx: Transaction) -> bool { tx.hash_cache.hash_inputs is None && tx.hash_cache.hash_sequence is None && tx.hash_cache.hash_outputs is None }
