// ---- transaction wire format + sighash midstate specs (written from the Bitcoin wire format and
// ---- the replay-protected sighash specification, not from the code) ----
pub open spec fn outpoint(i: TxIn) -> Seq<u8> { i.prev_tx_id@.reverse() + le32(i.vout) }
pub open spec fn ser_in(i: TxIn) -> Seq<u8> {
    outpoint(i) + varint(ser_script(i.unlocking_script).len() as u64) + ser_script(i.unlocking_script) + le32(i.sequence)
}
pub open spec fn ser_out(o: TxOut) -> Seq<u8> {
    le64(o.value) + varint(ser_script(o.script_pub_key).len() as u64) + ser_script(o.script_pub_key)
}
pub open spec fn cat_outpoints(s: Seq<TxIn>) -> Seq<u8> decreases s.len() { if s.len() == 0 { seq![] } else { cat_outpoints(s.drop_last()) + outpoint(s.last()) } }
pub open spec fn cat_sequences(s: Seq<TxIn>) -> Seq<u8> decreases s.len() { if s.len() == 0 { seq![] } else { cat_sequences(s.drop_last()) + le32(s.last().sequence) } }
pub open spec fn cat_ins(s: Seq<TxIn>) -> Seq<u8> decreases s.len() { if s.len() == 0 { seq![] } else { cat_ins(s.drop_last()) + ser_in(s.last()) } }
pub open spec fn cat_outputs(s: Seq<TxOut>) -> Seq<u8> decreases s.len() { if s.len() == 0 { seq![] } else { cat_outputs(s.drop_last()) + ser_out(s.last()) } }
pub open spec fn zeros32() -> Seq<u8> { filled(0u8, 32) }

pub open spec fn ser_tx(tx: Transaction) -> Seq<u8> {
    le32(tx.version) + varint(tx.inputs@.len() as u64) + cat_ins(tx.inputs@) + varint(tx.outputs@.len() as u64) + cat_outputs(tx.outputs@) + le32(tx.n_locktime)
}

// The three memoised hashes: each slot is empty or holds the hash of the CURRENT contents (C04 invariant).
pub open spec fn prevouts_slot_ok(tx: Transaction) -> bool { match tx.hash_cache.hash_inputs { Some(h) => h.0@ == spec_sha256d(cat_outpoints(tx.inputs@)), None => true } }
pub open spec fn sequences_slot_ok(tx: Transaction) -> bool { match tx.hash_cache.hash_sequence { Some(h) => h.0@ == spec_sha256d(cat_sequences(tx.inputs@)), None => true } }
pub open spec fn outputs_slot_ok(tx: Transaction) -> bool { match tx.hash_cache.hash_outputs { Some(h) => h.0@ == spec_sha256d(cat_outputs(tx.outputs@)), None => true } }
pub open spec fn cache_ok(tx: Transaction) -> bool { prevouts_slot_ok(tx) && sequences_slot_ok(tx) && outputs_slot_ok(tx) }
pub open spec fn cache_empty(tx: Transaction) -> bool { tx.hash_cache.hash_inputs is None && tx.hash_cache.hash_sequence is None && tx.hash_cache.hash_outputs is None }

// ---- independent positional decoder of the wire format (what "an independent decoder reads from the bytes") ----
pub ghost struct InRaw { pub txid_wire: Seq<u8>, pub vout: u32, pub script: Seq<u8>, pub sequence: u32, pub used: int }
pub ghost struct OutRaw { pub value: u64, pub script: Seq<u8>, pub used: int }
pub ghost struct TxRaw { pub version: u32, pub ins: Seq<InRaw>, pub outs: Seq<OutRaw>, pub locktime: u32, pub used: int }

pub open spec fn dec_in(s: Seq<u8>) -> Option<InRaw> {
    if s.len() < 36 { None } else {
        match parse_varint(s.skip(36)) {
            None => None,
            Some((n, k)) => if s.len() < 36 + k + n as int + 4 { None } else {
                Some(InRaw { txid_wire: s.subrange(0, 32), vout: un_le32(s.subrange(32, 36)), script: s.subrange(36 + k, 36 + k + n as int),
                             sequence: un_le32(s.subrange(36 + k + n as int, 36 + k + n as int + 4)), used: 36 + k + n as int + 4 })
            },
        }
    }
}
pub open spec fn dec_out(s: Seq<u8>) -> Option<OutRaw> {
    if s.len() < 8 { None } else {
        match parse_varint(s.skip(8)) {
            None => None,
            Some((n, k)) => if s.len() < 8 + k + n as int { None } else {
                Some(OutRaw { value: un_le64(s.subrange(0, 8)), script: s.subrange(8 + k, 8 + k + n as int), used: 8 + k + n as int })
            },
        }
    }
}
// whether Script::from_bytes accepts a byte string: an uninterpreted function of the bytes. That the outcome of
// Script::from_bytes IS a function of its input (it is a pure function) is assumed at its call sites (@stubonly clause);
// WHICH strings it accepts is the business of unit script_parse (C02).
pub uninterp spec fn script_accepts(b: Seq<u8>) -> bool;
pub open spec fn in_scripts_ok(r: InRaw) -> bool { is_coinbase_outpoint(r.txid_wire, r.vout) || script_accepts(r.script) }
pub open spec fn ins_scripts_ok(v: Seq<InRaw>) -> bool { forall|i: int| 0 <= i < v.len() ==> in_scripts_ok(#[trigger] v[i]) }
pub open spec fn outs_scripts_ok(v: Seq<OutRaw>) -> bool { forall|i: int| 0 <= i < v.len() ==> script_accepts((#[trigger] v[i]).script) }
pub open spec fn is_coinbase_outpoint(txid_wire: Seq<u8>, vout: u32) -> bool { txid_wire == zeros32() && vout == 0xffffffffu32 }
// the parsed input reports exactly what the decoder reads
pub open spec fn in_matches(t: TxIn, r: InRaw) -> bool {
    t.prev_tx_id@.reverse() == r.txid_wire && t.vout == r.vout && t.sequence == r.sequence && ser_script(t.unlocking_script) == r.script
    && t.satoshis is None && t.locking_script is None
    && (!is_coinbase_outpoint(r.txid_wire, r.vout) ==> tok(r.script) == Some(flats(t.unlocking_script.0@)) && no_bare_ifs(t.unlocking_script.0@))
}
pub open spec fn out_matches(t: TxOut, r: OutRaw) -> bool {
    t.value == r.value && ser_script(t.script_pub_key) == r.script && tok(r.script) == Some(flats(t.script_pub_key.0@)) && no_bare_ifs(t.script_pub_key.0@)
}
pub open spec fn dec_ins(s: Seq<u8>, n: nat) -> Option<(Seq<InRaw>, int)> decreases n {
    if n == 0 { Some((Seq::<InRaw>::empty(), 0int)) } else {
        match dec_ins(s, (n - 1) as nat) { None => None, Some((v, used)) =>
            if used > s.len() { None } else { match dec_in(s.skip(used)) { None => None, Some(r) => Some((v.push(r), used + r.used)) } } }
    }
}
pub open spec fn dec_outs(s: Seq<u8>, n: nat) -> Option<(Seq<OutRaw>, int)> decreases n {
    if n == 0 { Some((Seq::<OutRaw>::empty(), 0int)) } else {
        match dec_outs(s, (n - 1) as nat) { None => None, Some((v, used)) =>
            if used > s.len() { None } else { match dec_out(s.skip(used)) { None => None, Some(r) => Some((v.push(r), used + r.used)) } } }
    }
}
pub open spec fn dec_tx(s: Seq<u8>) -> Option<TxRaw> {
    if s.len() < 4 { None } else {
        match parse_varint(s.skip(4)) { None => None, Some((nin, k1)) =>
            match dec_ins(s.skip(4 + k1), nin as nat) { None => None, Some((ins, u1)) =>
                if 4 + k1 + u1 > s.len() { None } else {
                match parse_varint(s.skip(4 + k1 + u1)) { None => None, Some((nout, k2)) =>
                    match dec_outs(s.skip(4 + k1 + u1 + k2), nout as nat) { None => None, Some((outs, u2)) =>
                        if s.len() < 4 + k1 + u1 + k2 + u2 + 4 { None } else {
                            Some(TxRaw { version: un_le32(s.subrange(0, 4)), ins: ins, outs: outs,
                                         locktime: un_le32(s.subrange(4 + k1 + u1 + k2 + u2, 4 + k1 + u1 + k2 + u2 + 4)), used: 4 + k1 + u1 + k2 + u2 + 4 })
                        } } } } } }
    }
}
pub open spec fn ins_match(t: Seq<TxIn>, r: Seq<InRaw>) -> bool { t.len() == r.len() && forall|i: int| 0 <= i < t.len() ==> in_matches(#[trigger] t[i], r[i]) }
pub open spec fn outs_match(t: Seq<TxOut>, r: Seq<OutRaw>) -> bool { t.len() == r.len() && forall|i: int| 0 <= i < t.len() ==> out_matches(#[trigger] t[i], r[i]) }
pub open spec fn tx_matches(t: Transaction, r: TxRaw) -> bool {
    t.version == r.version && t.n_locktime == r.locktime && ins_match(t.inputs@, r.ins) && outs_match(t.outputs@, r.outs)
}
pub open spec fn sum_values(s: Seq<TxOut>) -> int decreases s.len() { if s.len() == 0 { 0 } else { sum_values(s.drop_last()) + s.last().value as int } }
pub open spec fn tx_is_coinbase(t: Transaction) -> bool { t.inputs@.len() == 1 && t.inputs@[0].prev_tx_id@ == zeros32() && t.inputs@[0].vout == 0xffffffffu32 }


// decoding k items is a prefix of decoding n >= k items
pub proof fn lemma_dec_ins_prefix(s: Seq<u8>, k: nat, n: nat)
    requires k <= n, dec_ins(s, n) is Some,
    ensures dec_ins(s, k) is Some, dec_ins(s, k)->Some_0.0 == dec_ins(s, n)->Some_0.0.take(k as int), dec_ins(s, n)->Some_0.0.len() == n,
    decreases n
{
    if n == 0 { assert(dec_ins(s, n)->Some_0.0.take(0) =~= Seq::<InRaw>::empty()); }
    else if k == n { assert(dec_ins(s, (n - 1) as nat) is Some); lemma_dec_ins_prefix(s, (n - 1) as nat, (n - 1) as nat); assert(dec_ins(s, n)->Some_0.0.take(n as int) =~= dec_ins(s, n)->Some_0.0); }
    else {
        assert(dec_ins(s, (n - 1) as nat) is Some);
        lemma_dec_ins_prefix(s, k, (n - 1) as nat);
        assert(dec_ins(s, n)->Some_0.0.take(k as int) =~= dec_ins(s, (n - 1) as nat)->Some_0.0.take(k as int));
    }
}
pub proof fn lemma_dec_outs_prefix(s: Seq<u8>, k: nat, n: nat)
    requires k <= n, dec_outs(s, n) is Some,
    ensures dec_outs(s, k) is Some, dec_outs(s, k)->Some_0.0 == dec_outs(s, n)->Some_0.0.take(k as int), dec_outs(s, n)->Some_0.0.len() == n,
    decreases n
{
    if n == 0 { assert(dec_outs(s, n)->Some_0.0.take(0) =~= Seq::<OutRaw>::empty()); }
    else if k == n { assert(dec_outs(s, (n - 1) as nat) is Some); lemma_dec_outs_prefix(s, (n - 1) as nat, (n - 1) as nat); assert(dec_outs(s, n)->Some_0.0.take(n as int) =~= dec_outs(s, n)->Some_0.0); }
    else {
        assert(dec_outs(s, (n - 1) as nat) is Some);
        lemma_dec_outs_prefix(s, k, (n - 1) as nat);
        assert(dec_outs(s, n)->Some_0.0.take(k as int) =~= dec_outs(s, (n - 1) as nat)->Some_0.0.take(k as int));
    }
}
