// ---- interpreter termination measure: number of script nodes not yet executed (an If node counts itself and both branches) ----
pub open spec fn node_count(b: ScriptBit) -> nat decreases b {
    match b {
        ScriptBit::If { code, pass, fail } => 1 + nodes(pass@) + (match fail { Some(f) => nodes(f@), None => 0 }),
        _ => 1,
    }
}
pub open spec fn nodes(s: Seq<ScriptBit>) -> nat decreases s {
    if s.len() == 0 { 0 } else { nodes(s.drop_last()) + node_count(s.last()) }
}
pub proof fn lemma_nodes_append(a: Seq<ScriptBit>, b: Seq<ScriptBit>)
    ensures nodes(a + b) == nodes(a) + nodes(b)
    decreases b.len()
{
    if b.len() == 0 { assert(a + b == a); }
    else { assert((a + b).drop_last() == a + b.drop_last()); assert((a + b).last() == b.last()); lemma_nodes_append(a, b.drop_last()); }
}
pub proof fn lemma_nodes_first(s: Seq<ScriptBit>)
    requires s.len() > 0
    ensures nodes(s) == node_count(s[0]) + nodes(s.skip(1))
{
    assert(s == seq![s[0]] + s.skip(1));
    lemma_nodes_append(seq![s[0]], s.skip(1));
    assert(seq![s[0]].drop_last() == Seq::<ScriptBit>::empty());
    reveal_with_fuel(nodes, 2);
}
pub open spec fn remaining(i: Interpreter) -> nat { if i.script_index <= i.script_bits@.len() { nodes(i.script_bits@.skip(i.script_index as int)) } else { 0 } }
