// Script templates (C19), written from the property statement
pub open spec fn len_cmp(c: DataLengthConstraints, n: int, bound: int) -> bool {
    match c {
        DataLengthConstraints::Equals => n == bound,
        DataLengthConstraints::GreaterThan => n > bound,
        DataLengthConstraints::LessThan => n < bound,
        DataLengthConstraints::GreaterThanOrEquals => n >= bound,
        DataLengthConstraints::LessThanOrEquals => n <= bound,
    }
}
// "decodes as a signature": what Signature::from_der_impl accepts (strict DER, optionally followed by one flag byte)
pub open spec fn decodes_as_signature(b: Seq<u8>) -> bool {
    der_dec(b) is Some || (b.len() > 0 && SigHash::valid_disc_from_u8(b.last() as int) && der_dec(b.drop_last()) is Some)
}
pub open spec fn push_payload(b: ScriptBit) -> Option<Seq<u8>> {
    match b { ScriptBit::Push(d) => Some(d@), ScriptBit::PushData(_, d) => Some(d@), _ => None }
}
pub open spec fn tok_matches(t: MatchToken, b: ScriptBit) -> bool {
    match t {
        MatchToken::OpCode(c) => b matches ScriptBit::OpCode(o) && c == o,
        MatchToken::Push(d) => b matches ScriptBit::Push(e) && d@ =~= e@,
        MatchToken::PushData(op, d) => b matches ScriptBit::PushData(op2, e) && op == op2 && d@ =~= e@,
        MatchToken::AnyData => push_payload(b) is Some,
        MatchToken::Data(n, c) => push_payload(b) is Some && len_cmp(c, push_payload(b)->Some_0.len() as int, n as int),
        MatchToken::Signature => b matches ScriptBit::Push(e) && decodes_as_signature(e@),
        MatchToken::PublicKey => b matches ScriptBit::Push(e) && sec1_valid(e@),
        MatchToken::PublicKeyHash => b matches ScriptBit::Push(e) && e@.len() == 20,
    }
}
pub open spec fn tmpl_matches(t: Seq<MatchToken>, s: Seq<ScriptBit>) -> bool {
    t.len() == s.len() && forall|i: int| 0 <= i < t.len() ==> tok_matches(#[trigger] t[i], s[i])
}
// kind tag: 0 Data, 1 Signature, 2 PublicKey, 3 PublicKeyHash
pub open spec fn kind_tag(k: MatchDataTypes) -> int { match k { MatchDataTypes::Data => 0, MatchDataTypes::Signature => 1, MatchDataTypes::PublicKey => 2, MatchDataTypes::PublicKeyHash => 3 } }
pub open spec fn tok_extract(t: MatchToken, b: ScriptBit) -> Option<(int, Seq<u8>)> {
    match t {
        MatchToken::AnyData => Some((0int, push_payload(b)->Some_0)),
        MatchToken::Data(_, _) => Some((0int, push_payload(b)->Some_0)),
        MatchToken::Signature => Some((1int, push_payload(b)->Some_0)),
        MatchToken::PublicKey => Some((2int, push_payload(b)->Some_0)),
        MatchToken::PublicKeyHash => Some((3int, push_payload(b)->Some_0)),
        _ => None,
    }
}
pub open spec fn tmpl_extract(t: Seq<MatchToken>, s: Seq<ScriptBit>, n: int) -> Seq<(int, Seq<u8>)> decreases n {
    if n <= 0 { Seq::empty() } else {
        let rest = tmpl_extract(t, s, n - 1);
        match tok_extract(t[n - 1], s[n - 1]) { Some(x) => rest.push(x), None => rest }
    }
}
pub open spec fn extracted_view(v: Seq<(MatchDataTypes, Vec<u8>)>) -> Seq<(int, Seq<u8>)> { Seq::new(v.len(), |i: int| (kind_tag(v[i].0), v[i].1@)) }

// ---- match criteria ----
pub open spec fn value_ok(v: u64, c: MatchCriteria) -> bool {
    (c.exact_value is Some ==> v == c.exact_value->Some_0) && (c.min_value is Some ==> v >= c.min_value->Some_0) && (c.max_value is Some ==> v <= c.max_value->Some_0)
}
pub open spec fn out_satisfies(o: TxOut, c: MatchCriteria) -> bool {
    (c.script_template is Some ==> tmpl_matches(c.script_template->Some_0.0@, o.script_pub_key.0@)) && value_ok(o.value, c)
}
// the script an input is matched on: unlocking ++ locking, re-parsed (C15 contract of get_finalised_script_impl)
pub uninterp spec fn finalised_bits(t: TxIn) -> Option<Seq<ScriptBit>>;
pub open spec fn in_satisfies(t: TxIn, c: MatchCriteria) -> bool {
    (c.script_template is Some ==> finalised_bits(t) is Some && tmpl_matches(c.script_template->Some_0.0@, finalised_bits(t)->Some_0))
    && (t.satoshis is Some ==> value_ok(t.satoshis->Some_0, c))
}
// the selection predicate of match_input(s): in_satisfies, with the value of an input that records none treated as
// unknown - it satisfies no exact / minimum bound (the property is silent about such inputs; a maximum bound is not applied to them)
pub open spec fn in_sel(t: TxIn, c: MatchCriteria) -> bool {
    (c.script_template is Some ==> finalised_bits(t) is Some && tmpl_matches(c.script_template->Some_0.0@, finalised_bits(t)->Some_0))
    && match t.satoshis { Some(v) => value_ok(v, c), None => c.exact_value is None && c.min_value is None }
}
pub open spec fn matching_indices(n: int, p: spec_fn(int) -> bool) -> Seq<usize> decreases n {
    if n <= 0 { Seq::empty() } else if p(n - 1) { matching_indices(n - 1, p).push((n - 1) as usize) } else { matching_indices(n - 1, p) }
}
