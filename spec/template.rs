// Script templates (C19), written from the property statement
pub open spec fn len_cmp(c: DataLengthConstraints, n: int, bound: int) -> bool {
    match c {
        DataLengthConstraints::Equals => n == bound,
        DataLengthConstraints::GreaterThan => n > bound,
        DataLengthConstraints::LessThan => n < bound,
        DataLengthConstraints::GreaterThanOrEquals => n >= bound,
        DataLengthConstraints::LessThanOrEquals => n <= bound,
    }
}
// "decodes as a signature": what Signature::from_der_impl accepts (strict DER, optionally followed by one flag byte)
pub open spec fn decodes_as_signature(b: Seq<u8>) -> bool {
    der_dec(b) is Some || (b.len() > 0 && SigHash::valid_disc_from_u8(b.last() as int) && der_dec(b.drop_last()) is Some)
}
pub open spec fn push_payload(b: ScriptBit) -> Option<Seq<u8>> {
    match b { ScriptBit::Push(d) => Some(d@), ScriptBit::PushData(_, d) => Some(d@), _ => None }
}
pub open spec fn tok_matches(t: MatchToken, b: ScriptBit) -> bool {
    match t {
        MatchToken::OpCode(c) => b matches ScriptBit::OpCode(o) && c == o,
        MatchToken::Push(d) => b matches ScriptBit::Push(e) && d@ =~= e@,
        MatchToken::PushData(op, d) => b matches ScriptBit::PushData(op2, e) && op == op2 && d@ =~= e@,
        MatchToken::AnyData => push_payload(b) is Some,
        MatchToken::Data(n, c) => push_payload(b) is Some && len_cmp(c, push_payload(b)->Some_0.len() as int, n as int),
        MatchToken::Signature => b matches ScriptBit::Push(e) && decodes_as_signature(e@),
        MatchToken::PublicKey => b matches ScriptBit::Push(e) && sec1_valid(e@),
        MatchToken::PublicKeyHash => b matches ScriptBit::Push(e) && e@.len() == 20,
    }
}
pub open spec fn tmpl_matches(t: Seq<MatchToken>, s: Seq<ScriptBit>) -> bool {
    t.len() == s.len() && forall|i: int| 0 <= i < t.len() ==> tok_matches(#[trigger] t[i], s[i])
}
// kind tag: 0 Data, 1 Signature, 2 PublicKey, 3 PublicKeyHash
pub open spec fn kind_tag(k: MatchDataTypes) -> int { match k { MatchDataTypes::Data => 0, MatchDataTypes::Signature => 1, MatchDataTypes::PublicKey => 2, MatchDataTypes::PublicKeyHash => 3 } }
pub open spec fn tok_extract(t: MatchToken, b: ScriptBit) -> Option<(int, Seq<u8>)> {
    match t {
        MatchToken::AnyData => Some((0int, push_payload(b)->Some_0)),
        MatchToken::Data(_, _) => Some((0int, push_payload(b)->Some_0)),
        MatchToken::Signature => Some((1int, push_payload(b)->Some_0)),
        MatchToken::PublicKey => Some((2int, push_payload(b)->Some_0)),
        MatchToken::PublicKeyHash => Some((3int, push_payload(b)->Some_0)),
        _ => None,
    }
}
pub open spec fn tmpl_extract(t: Seq<MatchToken>, s: Seq<ScriptBit>, n: int) -> Seq<(int, Seq<u8>)> decreases n {
    if n <= 0 { Seq::empty() } else {
        let rest = tmpl_extract(t, s, n - 1);
        match tok_extract(t[n - 1], s[n - 1]) { Some(x) => rest.push(x), None => rest }
    }
}
pub open spec fn extracted_view(v: Seq<(MatchDataTypes, Vec<u8>)>) -> Seq<(int, Seq<u8>)> { Seq::new(v.len(), |i: int| (kind_tag(v[i].0), v[i].1@)) }

// ---- match criteria ----
pub open spec fn value_ok(v: u64, c: MatchCriteria) -> bool {
    (c.exact_value is Some ==> v == c.exact_value->Some_0) && (c.min_value is Some ==> v >= c.min_value->Some_0) && (c.max_value is Some ==> v <= c.max_value->Some_0)
}
pub open spec fn out_satisfies(o: TxOut, c: MatchCriteria) -> bool {
    (c.script_template is Some ==> tmpl_matches(c.script_template->Some_0.0@, o.script_pub_key.0@)) && value_ok(o.value, c)
}
// the script an input is matched on: unlocking ++ locking, re-parsed (C15 contract of get_finalised_script_impl)
pub uninterp spec fn finalised_bits(t: TxIn) -> Option<Seq<ScriptBit>>;
pub open spec fn in_satisfies(t: TxIn, c: MatchCriteria) -> bool {
    (c.script_template is Some ==> finalised_bits(t) is Some && tmpl_matches(c.script_template->Some_0.0@, finalised_bits(t)->Some_0))
    && (t.satoshis is Some ==> value_ok(t.satoshis->Some_0, c))
}
// the selection predicate of match_input(s): in_satisfies, with the value of an input that records none treated as
// unknown - it satisfies no exact / minimum bound (the property is silent about such inputs; a maximum bound is not applied to them)
pub open spec fn in_sel(t: TxIn, c: MatchCriteria) -> bool {
    (c.script_template is Some ==> finalised_bits(t) is Some && tmpl_matches(c.script_template->Some_0.0@, finalised_bits(t)->Some_0))
    && match t.satoshis { Some(v) => value_ok(v, c), None => c.exact_value is None && c.min_value is None }
}
pub open spec fn matching_indices(n: int, p: spec_fn(int) -> bool) -> Seq<usize> decreases n {
    if n <= 0 { Seq::empty() } else if p(n - 1) { matching_indices(n - 1, p).push((n - 1) as usize) } else { matching_indices(n - 1, p) }
}

// ---- template text grammar (one whitespace-free word), written from the documented grammar:
// numeric aliases 0..16, opcode names (OP_SIG / OP_PUBKEY / OP_PUBKEYHASH / OP_DATA are the fuzzy tokens),
// OP_DATA<op><n> with <op> recognised in the order >=, <=, =, >, <, otherwise even-length hex data ----
pub enum TokAbs { Op(OpCodes), Sig, Pk, Pkh, Any, Data(usize, DataLengthConstraints), Push(Seq<u8>), PushData(OpCodes, Seq<u8>) }
pub open spec fn tok_abs(t: MatchToken) -> TokAbs {
    match t {
        MatchToken::OpCode(c) => TokAbs::Op(c), MatchToken::Push(d) => TokAbs::Push(d@), MatchToken::PushData(o, d) => TokAbs::PushData(o, d@),
        MatchToken::AnyData => TokAbs::Any, MatchToken::Data(n, c) => TokAbs::Data(n, c), MatchToken::Signature => TokAbs::Sig,
        MatchToken::PublicKey => TokAbs::Pk, MatchToken::PublicKeyHash => TokAbs::Pkh,
    }
}
pub open spec fn length_operator(t: Seq<char>) -> Option<(Seq<char>, DataLengthConstraints)> {
    if str_split_once(t, seq!['>', '=']) is Some { Some((str_split_once(t, seq!['>', '='])->Some_0.1, DataLengthConstraints::GreaterThanOrEquals)) }
    else if str_split_once(t, seq!['<', '=']) is Some { Some((str_split_once(t, seq!['<', '='])->Some_0.1, DataLengthConstraints::LessThanOrEquals)) }
    else if str_split_once(t, seq!['=']) is Some { Some((str_split_once(t, seq!['='])->Some_0.1, DataLengthConstraints::Equals)) }
    else if str_split_once(t, seq!['>']) is Some { Some((str_split_once(t, seq!['>'])->Some_0.1, DataLengthConstraints::GreaterThan)) }
    else if str_split_once(t, seq!['<']) is Some { Some((str_split_once(t, seq!['<'])->Some_0.1, DataLengthConstraints::LessThan)) }
    else { None }
}
pub open spec fn hex_token(t: Seq<char>) -> Option<TokAbs> {
    match hex_dec(t) {
        Some(b) => Some(if b.len() <= 0x4b { TokAbs::Push(b) } else if b.len() <= 0xff { TokAbs::PushData(OpCodes::OP_PUSHDATA1, b) }
                        else if b.len() <= 0xffff { TokAbs::PushData(OpCodes::OP_PUSHDATA2, b) } else { TokAbs::PushData(OpCodes::OP_PUSHDATA4, b) }),
        None => None,
    }
}
// None = the word is not a template token (error)
pub open spec fn template_token(t: Seq<char>, byte_len: int) -> Option<TokAbs> {
    if byte_len < 3 && str_parse_u8(t) == Some(0u8) { Some(TokAbs::Op(OpCodes::OP_0)) }
    else if byte_len < 3 && str_parse_u8(t) is Some && 1 <= str_parse_u8(t)->Some_0 <= 16 { Some(TokAbs::Op(small_num_opcode(str_parse_u8(t)->Some_0))) }
    else if opcode_of_name(t) is Some {
        let c = opcode_of_name(t)->Some_0;
        Some(if c is OP_SIG { TokAbs::Sig } else if c is OP_PUBKEY { TokAbs::Pk } else if c is OP_PUBKEYHASH { TokAbs::Pkh } else if c is OP_DATA { TokAbs::Any } else { TokAbs::Op(c) })
    }
    else if str_starts_with(t, op_name(OpCodes::OP_DATA)) && length_operator(t) is Some {
        match str_parse_usize(length_operator(t)->Some_0.0) { Some(n) => Some(TokAbs::Data(n, length_operator(t)->Some_0.1)), None => None }
    }
    else { hex_token(t) }
}
// OP_1 .. OP_16 are the opcodes 81 .. 96
pub open spec fn small_num_opcode(v: u8) -> OpCodes {
    if v == 1 { OpCodes::OP_1 } else if v == 2 { OpCodes::OP_2 } else if v == 3 { OpCodes::OP_3 } else if v == 4 { OpCodes::OP_4 } else if v == 5 { OpCodes::OP_5 }
    else if v == 6 { OpCodes::OP_6 } else if v == 7 { OpCodes::OP_7 } else if v == 8 { OpCodes::OP_8 } else if v == 9 { OpCodes::OP_9 } else if v == 10 { OpCodes::OP_10 }
    else if v == 11 { OpCodes::OP_11 } else if v == 12 { OpCodes::OP_12 } else if v == 13 { OpCodes::OP_13 } else if v == 14 { OpCodes::OP_14 } else if v == 15 { OpCodes::OP_15 } else { OpCodes::OP_16 }
}
