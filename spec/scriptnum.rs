// ---- Bitcoin script numbers (written from the BSV script specification): little-endian sign-magnitude ----
pub open spec fn clear_top(b: Seq<u8>) -> Seq<u8> { if b.len() == 0 { b } else { b.update(b.len() - 1, (b.last() & 0x7fu8)) } }
pub open spec fn scriptnum(b: Seq<u8>) -> int {
    if b.len() == 0 { 0 } else if b.last() & 0x80u8 == 0x80u8 { -(le_val(clear_top(b)) as int) } else { le_val(b) as int }
}
// minimal encoding of v (the only encoding a conforming implementation pushes)
pub open spec fn enc_scriptnum(v: int) -> Seq<u8> {
    if v == 0 { Seq::<u8>::empty() } else {
        let m = mag_le((if v < 0 { -v } else { v }) as nat);
        if m.last() & 0x80u8 == 0x80u8 { m.push(if v < 0 { 0x80u8 } else { 0x00u8 }) }
        else if v < 0 { m.update(m.len() - 1, m.last() | 0x80u8) } else { m }
    }
}
// truthiness of a stack element: any byte non-zero, except that a lone sign bit on the last byte (negative zero) is false
pub open spec fn truthy(b: Seq<u8>) -> bool {
    exists|i: int| 0 <= i < b.len() && #[trigger] b[i] != 0u8 && !(i == b.len() - 1 && b[i] == 0x80u8)
}
