// ---- sighash flag algebra, by enumeration of the SigHash variants (no bit-vector reasoning needed) ----
pub open spec fn acp(f: SigHash) -> bool { f is ANYONECANPAY || f is InputOutputs || f is Input || f is InputOutput || f is Legacy_InputOutputs || f is Legacy_Input || f is Legacy_InputOutput }
pub open spec fn base(f: SigHash) -> int { if f is ALL || f is InputsOutputs || f is InputOutputs || f is Legacy_InputOutputs { 1 } else if f is NONE || f is Inputs || f is Input || f is Legacy_Input { 2 } else if f is SINGLE || f is InputsOutput || f is InputOutput || f is Legacy_InputOutput { 3 } else { 0 } }
pub open spec fn forkid6(f: SigHash) -> bool { f is InputsOutputs || f is Inputs || f is InputsOutput || f is InputOutputs || f is Input || f is InputOutput }
pub open spec fn legacy6(f: SigHash) -> bool { f is ALL || f is NONE || f is SINGLE || f is Legacy_InputOutputs || f is Legacy_Input || f is Legacy_InputOutput }

// ---- replay-protected (FORKID) sighash preimage, written from the BCH/BSV replay-protected-sighash specification ----
pub open spec fn spec_hash_prevouts(tx: Transaction, f: SigHash) -> Seq<u8> { if acp(f) { zeros32() } else { spec_sha256d(cat_outpoints(tx.inputs@)) } }
pub open spec fn spec_hash_sequence(tx: Transaction, f: SigHash) -> Seq<u8> { if !acp(f) && base(f) != 2 && base(f) != 3 { spec_sha256d(cat_sequences(tx.inputs@)) } else { zeros32() } }
pub open spec fn spec_hash_outputs(tx: Transaction, f: SigHash, i: int) -> Seq<u8> {
    if base(f) != 2 && base(f) != 3 { spec_sha256d(cat_outputs(tx.outputs@)) }
    else if base(f) == 3 && 0 <= i < tx.outputs@.len() { spec_sha256d(ser_out(tx.outputs@[i])) }
    else { zeros32() }
}
pub open spec fn preimage_forkid(tx: Transaction, i: int, f: SigHash, subscript: Seq<u8>, value: u64) -> Seq<u8> {
    le32(tx.version) + spec_hash_prevouts(tx, f) + spec_hash_sequence(tx, f) + outpoint(tx.inputs@[i])
    + varint(subscript.len() as u64) + subscript + le64(value) + le32(tx.inputs@[i].sequence)
    + spec_hash_outputs(tx, f, i) + le32(tx.n_locktime) + le32((f as u8) as u32)
}
pub open spec fn same_contents(a: Transaction, b: Transaction) -> bool { a.version == b.version && a.inputs == b.inputs && a.outputs == b.outputs && a.n_locktime == b.n_locktime }

// ---- legacy (pre-fork) sighash preimage, written from the original Bitcoin SignatureHash ----
pub open spec fn null_out() -> Seq<u8> { le64(0xffffffffffffffffu64) + varint(0) }
pub open spec fn nulls(k: nat) -> Seq<u8> decreases k { if k == 0 { Seq::<u8>::empty() } else { nulls((k - 1) as nat) + null_out() } }
// one input of the rewritten transaction: the signed input carries the subscript, all others an empty script;
// under NONE / SINGLE the other inputs' sequences are zeroed
pub open spec fn legacy_in(t: TxIn, signed: bool, sub: Seq<u8>, zero_others: bool) -> Seq<u8> {
    outpoint(t) + (if signed { varint(sub.len() as u64) + sub } else { varint(0) }) + le32(if zero_others && !signed { 0u32 } else { t.sequence })
}
pub open spec fn legacy_ins(ins: Seq<TxIn>, i: int, sub: Seq<u8>, zero_others: bool) -> Seq<u8> decreases ins.len() {
    if ins.len() == 0 { Seq::<u8>::empty() } else { legacy_ins(ins.drop_last(), i, sub, zero_others) + legacy_in(ins.last(), ins.len() - 1 == i, sub, zero_others) }
}
pub open spec fn preimage_legacy(tx: Transaction, i: int, f: SigHash, sub: Seq<u8>) -> Seq<u8> {
    let z = base(f) == 2 || base(f) == 3;
    le32(tx.version)
    + (if acp(f) { varint(1) + legacy_in(tx.inputs@[i], true, sub, false) } else { varint(tx.inputs@.len() as u64) + legacy_ins(tx.inputs@, i, sub, z) })
    + (if base(f) == 2 { varint(0) } else if base(f) == 3 { varint((i + 1) as u64) + nulls(i as nat) + ser_out(tx.outputs@[i]) } else { varint(tx.outputs@.len() as u64) + cat_outputs(tx.outputs@) })
    + le32(tx.n_locktime) + le32((f as u8) as u32)
}
// relation between the scratch copy's inputs and the original inputs
pub open spec fn in_rel(m: TxIn, o: TxIn, signed: bool, sub: Seq<u8>, zero_others: bool) -> bool {
    m.prev_tx_id@ == o.prev_tx_id@ && m.vout == o.vout
    && ser_script(m.unlocking_script) == (if signed { sub } else { Seq::<u8>::empty() })
    && m.sequence == (if zero_others && !signed { 0u32 } else { o.sequence })
}
pub proof fn lemma_in_rel(m: TxIn, o: TxIn, signed: bool, sub: Seq<u8>, z: bool)
    requires in_rel(m, o, signed, sub, z)
    ensures ser_in(m) == legacy_in(o, signed, sub, z)
{ }
pub proof fn lemma_ins_rel(m: Seq<TxIn>, o: Seq<TxIn>, i: int, sub: Seq<u8>, z: bool)
    requires m.len() == o.len(), forall|j: int| 0 <= j < m.len() ==> in_rel(#[trigger] m[j], o[j], j == i, sub, z)
    ensures cat_ins(m) == legacy_ins(o, i, sub, z)
    decreases m.len()
{
    if m.len() > 0 {
        lemma_ins_rel(m.drop_last(), o.drop_last(), i, sub, z);
        lemma_in_rel(m.last(), o.last(), m.len() - 1 == i, sub, z);
    }
}
pub open spec fn is_null_out(t: TxOut) -> bool { t.value == 0xffffffffffffffffu64 && ser_script(t.script_pub_key) == Seq::<u8>::empty() }
pub proof fn lemma_nulls(m: Seq<TxOut>)
    requires forall|j: int| 0 <= j < m.len() ==> is_null_out(#[trigger] m[j])
    ensures cat_outputs(m) == nulls(m.len())
    decreases m.len()
{
    if m.len() > 0 { lemma_nulls(m.drop_last()); }
}
// the state of the scratch copy just before serialisation, relative to the original transaction o
pub open spec fn legacy_scratch_ok(tx: Transaction, o: Transaction, n: int, f: SigHash, sub: Seq<u8>) -> bool {
    let z = base(f) == 2 || base(f) == 3;
    &&& 0 <= n < o.inputs@.len()
    &&& tx.version == o.version && tx.n_locktime == o.n_locktime
    &&& (acp(f) ==> tx.inputs@.len() == 1 && in_rel(tx.inputs@[0], o.inputs@[n], true, sub, z))
    &&& (!acp(f) ==> tx.inputs@.len() == o.inputs@.len() && forall|j: int| 0 <= j < tx.inputs@.len() ==> in_rel(#[trigger] tx.inputs@[j], o.inputs@[j], j == n, sub, z))
    &&& (base(f) == 1 ==> tx.outputs@ == o.outputs@)
    &&& (base(f) == 2 ==> tx.outputs@.len() == 0)
    &&& (base(f) == 3 ==> n < o.outputs@.len() && tx.outputs@.len() == n + 1 && tx.outputs@[n] == o.outputs@[n] && forall|j: int| 0 <= j < n ==> is_null_out(#[trigger] tx.outputs@[j]))
}
pub open spec fn legacy_ins_part(o: Transaction, n: int, f: SigHash, sub: Seq<u8>) -> Seq<u8> {
    let z = base(f) == 2 || base(f) == 3;
    if acp(f) { varint(1) + legacy_in(o.inputs@[n], true, sub, false) } else { varint(o.inputs@.len() as u64) + legacy_ins(o.inputs@, n, sub, z) }
}
pub open spec fn legacy_outs_part(o: Transaction, n: int, f: SigHash) -> Seq<u8> {
    if base(f) == 2 { varint(0) } else if base(f) == 3 { varint((n + 1) as u64) + nulls(n as nat) + ser_out(o.outputs@[n]) } else { varint(o.outputs@.len() as u64) + cat_outputs(o.outputs@) }
}
pub proof fn lemma_legacy_ins_part(tx: Transaction, o: Transaction, n: int, f: SigHash, sub: Seq<u8>)
    requires legacy6(f), legacy_scratch_ok(tx, o, n, f, sub)
    ensures varint(tx.inputs@.len() as u64) + cat_ins(tx.inputs@) == legacy_ins_part(o, n, f, sub)
{
    let z = base(f) == 2 || base(f) == 3;
    if acp(f) {
        lemma_in_rel(tx.inputs@[0], o.inputs@[n], true, sub, z);
        assert(tx.inputs@.drop_last() == Seq::<TxIn>::empty());
        assert(tx.inputs@.last() == tx.inputs@[0]);
        reveal_with_fuel(cat_ins, 2);
        assert(cat_ins(tx.inputs@) == legacy_in(o.inputs@[n], true, sub, false));
    } else {
        lemma_ins_rel(tx.inputs@, o.inputs@, n, sub, z);
    }
}
pub proof fn lemma_legacy_outs_part(tx: Transaction, o: Transaction, n: int, f: SigHash, sub: Seq<u8>)
    requires legacy6(f), legacy_scratch_ok(tx, o, n, f, sub)
    ensures varint(tx.outputs@.len() as u64) + cat_outputs(tx.outputs@) == legacy_outs_part(o, n, f)
{
    if base(f) == 3 {
        lemma_nulls(tx.outputs@.drop_last());
        assert(tx.outputs@.last() == o.outputs@[n]);
        assert(cat_outputs(tx.outputs@) == nulls(n as nat) + ser_out(o.outputs@[n]));
        assert(varint((n + 1) as u64) + (nulls(n as nat) + ser_out(o.outputs@[n])) =~= varint((n + 1) as u64) + nulls(n as nat) + ser_out(o.outputs@[n]));
    } else if base(f) == 2 {
        assert(cat_outputs(tx.outputs@) == Seq::<u8>::empty());
        assert(varint(0) + Seq::<u8>::empty() =~= varint(0));
    }
}
pub proof fn lemma_legacy_final(tx: Transaction, o: Transaction, n: int, f: SigHash, sub: Seq<u8>)
    requires legacy6(f), legacy_scratch_ok(tx, o, n, f, sub)
    ensures ser_tx(tx) + le32((f as u8) as u32) == preimage_legacy(o, n, f, sub)
{
    lemma_legacy_ins_part(tx, o, n, f, sub);
    lemma_legacy_outs_part(tx, o, n, f, sub);
    let a = le32(tx.version);
    let b = varint(tx.inputs@.len() as u64);
    let c = cat_ins(tx.inputs@);
    let d = varint(tx.outputs@.len() as u64);
    let e = cat_outputs(tx.outputs@);
    let g = le32(tx.n_locktime);
    let h = le32((f as u8) as u32);
    assert(preimage_legacy(o, n, f, sub) == a + legacy_ins_part(o, n, f, sub) + legacy_outs_part(o, n, f) + g + h);
    assert(a + b + c + d + e + g + h =~= a + (b + c) + (d + e) + g + h);
}
