// ---- sighash flag algebra, by enumeration of the SigHash variants (no bit-vector reasoning needed) ----
pub open spec fn acp(f: SigHash) -> bool { f is ANYONECANPAY || f is InputOutputs || f is Input || f is InputOutput || f is Legacy_InputOutputs || f is Legacy_Input || f is Legacy_InputOutput }
pub open spec fn base(f: SigHash) -> int { if f is ALL || f is InputsOutputs || f is InputOutputs || f is Legacy_InputOutputs { 1 } else if f is NONE || f is Inputs || f is Input || f is Legacy_Input { 2 } else if f is SINGLE || f is InputsOutput || f is InputOutput || f is Legacy_InputOutput { 3 } else { 0 } }
pub open spec fn forkid6(f: SigHash) -> bool { f is InputsOutputs || f is Inputs || f is InputsOutput || f is InputOutputs || f is Input || f is InputOutput }
pub open spec fn legacy6(f: SigHash) -> bool { f is ALL || f is NONE || f is SINGLE || f is Legacy_InputOutputs || f is Legacy_Input || f is Legacy_InputOutput }

// ---- replay-protected (FORKID) sighash preimage, written from the BCH/BSV replay-protected-sighash specification ----
pub open spec fn spec_hash_prevouts(tx: Transaction, f: SigHash) -> Seq<u8> { if acp(f) { zeros32() } else { spec_sha256d(cat_outpoints(tx.inputs@)) } }
pub open spec fn spec_hash_sequence(tx: Transaction, f: SigHash) -> Seq<u8> { if !acp(f) && base(f) != 2 && base(f) != 3 { spec_sha256d(cat_sequences(tx.inputs@)) } else { zeros32() } }
pub open spec fn spec_hash_outputs(tx: Transaction, f: SigHash, i: int) -> Seq<u8> {
    if base(f) != 2 && base(f) != 3 { spec_sha256d(cat_outputs(tx.outputs@)) }
    else if base(f) == 3 && 0 <= i < tx.outputs@.len() { spec_sha256d(ser_out(tx.outputs@[i])) }
    else { zeros32() }
}
pub open spec fn preimage_forkid(tx: Transaction, i: int, f: SigHash, subscript: Seq<u8>, value: u64) -> Seq<u8> {
    le32(tx.version) + spec_hash_prevouts(tx, f) + spec_hash_sequence(tx, f) + outpoint(tx.inputs@[i])
    + varint(subscript.len() as u64) + subscript + le64(value) + le32(tx.inputs@[i].sequence)
    + spec_hash_outputs(tx, f, i) + le32(tx.n_locktime) + le32((f as u8) as u32)
}
pub open spec fn same_contents(a: Transaction, b: Transaction) -> bool { a.version == b.version && a.inputs == b.inputs && a.outputs == b.outputs && a.n_locktime == b.n_locktime }
