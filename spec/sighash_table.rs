// signature-hash flag bytes (BIP143 / Bitcoin SV): base types 1..3, FORKID 0x40, ANYONECANPAY 0x80 and their unions
pub proof fn sighash_flags_have_their_standard_byte_values()
    ensures
        SigHash::ALL as u8 == 0x01u8 && SigHash::NONE as u8 == 0x02u8 && SigHash::SINGLE as u8 == 0x03u8 && SigHash::FORKID as u8 == 0x40u8 && SigHash::ANYONECANPAY as u8 == 0x80u8 &&
        SigHash::InputsOutputs as u8 == 0x41u8 && SigHash::Inputs as u8 == 0x42u8 && SigHash::InputsOutput as u8 == 0x43u8 &&
        SigHash::InputOutputs as u8 == 0xc1u8 && SigHash::Input as u8 == 0xc2u8 && SigHash::InputOutput as u8 == 0xc3u8 &&
        SigHash::Legacy_InputOutputs as u8 == 0x81u8 && SigHash::Legacy_Input as u8 == 0x82u8 && SigHash::Legacy_InputOutput as u8 == 0x83u8, // [sighash_flag_byte_values_match_the_standard]
{}
