// canonical compact-size integer (Bitcoin wire format)
pub open spec fn varint(n: u64) -> Seq<u8> {
    if n <= 252 { seq![n as u8] } else if n <= 0xffff { seq![0xfdu8] + le16(n as u16) }
    else if n <= 0xffffffff { seq![0xfeu8] + le32(n as u32) } else { seq![0xffu8] + le64(n) }
}
// the accepting reader (non-canonical forms included): value and bytes consumed
pub open spec fn parse_varint(s: Seq<u8>) -> Option<(u64, int)> {
    if s.len() < 1 { None }
    else if s[0] == 0xff { if s.len() < 9 { None } else { Some((un_le64(s.subrange(1, 9)), 9int)) } }
    else if s[0] == 0xfe { if s.len() < 5 { None } else { Some((un_le32(s.subrange(1, 5)) as u64, 5int)) } }
    else if s[0] == 0xfd { if s.len() < 3 { None } else { Some((un_le16(s.subrange(1, 3)) as u64, 3int)) } }
    else { Some((s[0] as u64, 1int)) }
}

